"""helper: python -m mc.kf fixed <PID> <commit> <what>  |  known <PID> '<match-json>' <what>"""
import json
import sys

P = "/verif/known_findings.json"


def main():
    d = json.load(open(P))
    kind = sys.argv[1]
    if kind == "fixed":
        pid, commit, what = sys.argv[2], sys.argv[3], sys.argv[4]
        d["findings"].append({
            "property": pid, "status": "fixed", "commit": commit,
            "what": what,
            "line": f"fixed: property={pid} {commit} {what}"})
    else:
        pid, match, what = sys.argv[2], json.loads(sys.argv[3]), sys.argv[4]
        d["findings"].append({
            "property": pid, "status": "known", "match": match,
            "what": what})
    json.dump(d, open(P, "w"), indent=1)


main()
