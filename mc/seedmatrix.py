"""Development tool (not a registered check): re-run, for every kept seeded
change /verif/seeded/<PID>-m<k>/patch.diff, the quick check of its property
against a patched scratch copy of /repo and refresh meta.json's detected_by.

usage: python -m mc.seedmatrix [<PID> ...] [--jobs N] [--tier quick]
Prints one line per seeded change and a final summary; exit 1 if any kept
change is no longer detected.
"""
import concurrent.futures
import json
import os
import shutil
import subprocess
import sys
import tempfile

SEEDED = "/verif/seeded"


def run_one(name, tier):
    pid = name.split("-")[0]
    d = os.path.join(SEEDED, name)
    scratch = tempfile.mkdtemp(prefix="ckl-sm-")
    try:
        dst = os.path.join(scratch, "repo")
        shutil.copytree("/repo", dst, ignore=shutil.ignore_patterns(
            ".git", "__pycache__", "*.pyc", ".pytest_cache"))
        r = subprocess.run(["git", "apply", "--unsafe-paths", "--directory",
                            dst, os.path.join(d, "patch.diff")],
                           capture_output=True, text=True, cwd="/")
        if r.returncode != 0:
            return name, 3, ["PATCH-FAILED " + r.stderr[-300:]]
        env = dict(os.environ, VERIF_REPO=dst, VERIF_PROCS="8",
                   VERIF_OUT=os.path.join(scratch, "out"))
        r = subprocess.run(["/verif/check", pid, "--tier", tier], env=env,
                           capture_output=True, text=True, cwd="/verif")
        sigs = [ln.strip() for ln in r.stdout.splitlines()
                if "signature:" in ln][:4]
        return name, r.returncode, sigs
    finally:
        shutil.rmtree(scratch, ignore_errors=True)


def main():
    args = [a for a in sys.argv[1:] if not a.startswith("--")]
    jobs = 3
    tier = "quick"
    if "--jobs" in sys.argv:
        jobs = int(sys.argv[sys.argv.index("--jobs") + 1])
        args = [a for a in args if a != str(jobs)]
    if "--tier" in sys.argv:
        tier = sys.argv[sys.argv.index("--tier") + 1]
        args = [a for a in args if a != tier]
    names = sorted(n for n in os.listdir(SEEDED)
                   if os.path.exists(os.path.join(SEEDED, n, "patch.diff"))
                   and (not args or n.split("-")[0] in args))
    bad = 0
    with concurrent.futures.ThreadPoolExecutor(jobs) as ex:
        for name, rc, sigs in ex.map(lambda n: run_one(n, tier), names):
            print(name, "exit=%d" % rc,
                  {1: "DETECTED", 0: "MISSED"}.get(rc, "ERROR"),
                  "; ".join(sigs)[:160], flush=True)
            if rc != 1:
                bad += 1
            mp = os.path.join(SEEDED, name, "meta.json")
            if os.path.exists(mp) and tier == "quick":
                meta = json.load(open(mp))
                pid = name.split("-")[0]
                meta.setdefault("detected_by", {})[pid] = {
                    "exit": rc, "signatures": sigs}
                json.dump(meta, open(mp, "w"), indent=1)
    print("seeded changes: %d, not detected: %d" % (len(names), bad))
    return 1 if bad else 0


if __name__ == "__main__":
    sys.exit(main())
