"""E1 call sweep shared by C13 (only language errors escape) and C16a
(arguments are not modified): every function reachable in a secure legacy
interpreter and in every bundled module x every argument tuple up to arity 3
from a value pool, each call executed on the real interpreter with fresh
argument values."""
import datetime
import io
import itertools

from mc import core

import ckl.values as V
import ckl.functions as F


# ---- value pool -----------------------------------------------------------
def _obj(session):
    o = V.ValueObject()
    o.addItem("a", V.ValueInt(1))
    o.addItem("f", session.lam_self)
    return o


def _strobj(session, fn):
    o = V.ValueObject()
    o.addItem("_str_", fn)
    return o


POOL = [
    ("NULL", lambda s: V.NULL),
    ("TRUE", lambda s: V.TRUE),
    ("FALSE", lambda s: V.FALSE),
    ("0", lambda s: V.ValueInt(0)),
    ("1", lambda s: V.ValueInt(1)),
    ("-1", lambda s: V.ValueInt(-1)),
    ("3", lambda s: V.ValueInt(3)),
    ("0.0", lambda s: V.ValueDecimal(0.0)),
    ("1.5", lambda s: V.ValueDecimal(1.5)),
    ("-2.5", lambda s: V.ValueDecimal(-2.5)),
    ("''", lambda s: V.ValueString("")),
    ("'a'", lambda s: V.ValueString("a")),
    ("'abc'", lambda s: V.ValueString("abc")),
    ("'12'", lambda s: V.ValueString("12")),
    ("[]", lambda s: core.to_value([])),
    ("[1, 2, 3]", lambda s: core.to_value([1, 2, 3])),
    ("['a', [1]]", lambda s: core.to_value(["a", [1]])),
    ("<<>>", lambda s: core.to_value(("set", []))),
    ("<<1, 'a'>>", lambda s: core.to_value(("set", [1, "a"]))),
    ("<<<>>>", lambda s: core.to_value(("map", []))),
    ("<<<'a' => 1, 2 => [3]>>>",
     lambda s: core.to_value(("map", [("a", 1), (2, [3])]))),
    ("<**>", lambda s: V.ValueObject()),
    ("<*a = 1, f = fn(self) 1*>", _obj),
    ("date('20200229')",
     lambda s: V.ValueDate(datetime.datetime(2020, 2, 29))),
    ("//a+//", lambda s: V.ValuePattern("a+")),
    ("fn(x) x", lambda s: s.lam_id),
    ("fn(a, b) compare(a, b)", lambda s: s.lam_cmp),
    ("sum", lambda s: s.native_sum),
    ("str_input('ab\\ncd')",
     lambda s: V.ValueInput(V.StringInput("ab\ncd"))),
    ("str_output()", lambda s: V.ValueOutput(V.StringOutput())),
    ("<*_str_ = fn(self) 'x'*>", lambda s: _strobj(s, s.lam_strx)),
    ("<*_str_ = fn(self) 1*>", lambda s: _strobj(s, s.lam_self)),
    ("<*_proto_ = 1*>", lambda s: core.to_value(("obj", [("_proto_", 1)]))),
    ("' '", lambda s: V.ValueString(" ")),
    ("'20200101'", lambda s: V.ValueString("20200101")),
    ("[[1, 2], ['a', 4]]", lambda s: core.to_value([[1, 2], ["a", 4]])),
    ("<<[1], <<2>>>>", lambda s: core.to_value(("set", [[1], ("set", [2])]))),
    ("parse('1 + 2')", lambda s: V.ValueNode(s.node12)),
    ("[1, 1, 1]", lambda s: core.to_value([1, 1, 1])),
    ("'aa'", lambda s: V.ValueString("aa")),
    ("2", lambda s: V.ValueInt(2)),
    # digit strings of a length that is no date format; a _str_ member that
    # is no function; a prototype chain that leads back to the object
    ("'123456789'", lambda s: V.ValueString("123456789")),
    # a template whose placeholder names the argument variable itself
    ("'{a#12}'", lambda s: V.ValueString("{a#12}")),
    ("<*_str_ = 5*>", lambda s: core.to_value(("obj", [("_str_", 5)]))),
    ("<*a = 1, _proto_ = itself*>", lambda s: _selfproto()),
    # an instance of such an object (the cycle does not contain it), and a
    # list that contains itself
    ("<*_proto_ = cyclic*>", lambda s: core.to_value(("obj", [])).addItem(
        "_proto_", _selfproto())),
    ("[1, itself]", lambda s: _selflist()),
    # an int beyond the range of the host's floats (syntactic forms only:
    # as a repeat count or size argument of library functions it would
    # only measure resource exhaustion)
    ("10^400", lambda s: V.ValueInt(10 ** 400)),
    # a pattern text with an optional group and an empty alternative (host
    # regex functions answer None for groups that took no part)
    ("'(x)?b|'", lambda s: V.ValueString("(x)?b|")),
]
FORMS_ONLY = {"10^400"}
def _selflist():
    lst = core.to_value([1])
    lst.addItem(lst)
    return lst


def _selfproto():
    o = core.to_value(("obj", [("a", 1)]))
    o.addItem("_proto_", o)
    return o


SUBPOOL = ["NULL", "TRUE", "0", "-1", "3", "1.5", "''", "'abc'", "[]",
           "[1, 2, 3]", "<<1, 'a'>>", "<<<'a' => 1, 2 => [3]>>>",
           "<*a = 1, f = fn(self) 1*>", "fn(x) x", "<*_str_ = fn(self) 1*>",
           "[[1, 2], ['a', 4]]", "[1, 1, 1]", "2"]
POOL_INDEX = {name: i for i, (name, _) in enumerate(POOL)}


class SweepSession:
    """secure legacy interpreter + every bundled module required as M_<name>"""

    def __init__(self, legacy=True):
        core.install_fuel()
        self.session = core.Session(secure=True, legacy=legacy)
        it = self.session.interp
        mods = [m.value for m in
                it.base_environment.get("checkerlang_modules").value]
        self.modules = sorted(mods)
        for m in self.modules:
            it.interpret(f"require {m} as M_{m}", "prelude")
        self.lam_id = it.interpret("fn(x) x", "pool")
        self.lam_cmp = it.interpret("fn(a, b) compare(a, b)", "pool")
        self.lam_self = it.interpret("fn(self) 1", "pool")
        self.lam_strx = it.interpret("fn(self) 'x'", "pool")
        self.node12 = core.ckl.parser.parse_script("1 + 2", "pool")
        self.native_sum = it.interpret("sum", "pool")
        self.env = it.environment
        self.funcs = self._discover()
        self._forms = {}

    def _key(self, fn):
        if isinstance(fn, F.FuncLambda):
            return ("lambda", fn.name, tuple(fn.argNames),
                    repr(getattr(fn.body, "pos", None)))
        return ("native", type(fn).__name__)

    def _discover(self):
        it = self.session.interp
        seen = {}
        out = []
        names = [s for s in it.environment.getSymbols()]
        for name in names:
            try:
                v = it.environment.get(name)
            except Exception:
                continue
            if isinstance(v, V.ValueFunc):
                k = self._key(v)
                if k not in seen:
                    seen[k] = name
                    out.append((name, v))
        for m in self.modules:
            mod = it.environment.get("M_" + m)
            for member, v in mod.value.items():
                if isinstance(v, V.ValueFunc):
                    k = self._key(v)
                    if k not in seen:
                        seen[k] = f"{m}->{member}"
                        out.append((f"{m}->{member}", v))
        out.sort(key=lambda t: t[0])
        return out

    def form(self, arity, named=None):
        key = (arity, named)
        node = self._forms.get(key)
        if node is None:
            params = ["a", "b", "c", "d"][:arity]
            if named is not None:
                params[-1] = f"{named} = {params[-1]}"
            node = core.ckl.parser.parse_script(
                "f(" + ", ".join(params) + ")", "sweep")
            self._forms[key] = node
        return node

    def call(self, fn, argnames, named=None, wrap=None, alias=False,
             wall=4.0):
        """execute one call with fresh pool values; returns (outcome_raw,
        args(list of Value)); alias=True passes ONE object for equal names"""
        args = [POOL[POOL_INDEX[a]][1](self) for a in argnames]
        if alias:
            first = {}
            args = [first.setdefault(a, v) for a, v in zip(argnames, args)]
        env = self.env.newEnv()
        env.put("f", fn)
        for nm, v in zip("abcd", args):
            env.put(nm, v)
        self.session._bind_streams()
        F.seed = 1
        node = self.form(len(args), named)
        core.set_fuel(30000, 30000)
        core.arm(wall)
        try:
            o = core.outcome_raw(lambda: node.evaluate(env))
            if o[0] == "value" and not (
                    isinstance(o[1], V.Value) and core.is_cyclic(o[1])):
                # rendering the result is part of the observation
                try:
                    repr(o[1])
                except core.CklRuntimeError:
                    pass
                except (core.FuelExhausted, core.WallClock) as e:
                    o = ("hang", "fuel" if isinstance(e, core.FuelExhausted)
                         else "wall")
                except RecursionError:
                    o = ("host", "RecursionError", "render")
                except Exception as e:
                    o = ("host", type(e).__name__,
                         "render:" + core.host_site(e))
        finally:
            core.disarm()
            core.set_fuel(10 ** 12, 10 ** 12)
        return o, args


POOL4 = ["'aa'", "'a'", "' '", "'abc'", "[1, 2, 3]", "[1, 1, 1]", "0", "1",
         "2", "-1", "NULL", "fn(x) x"]


def arg_tuples(nparams, tier):
    """all argument tuples of arity 0..min(3, nparams) (names of pool
    entries); quick restricts arity 3 to the sub-pool; the few functions
    with a fourth parameter get all 4-tuples over a 12-value pool"""
    names = [n for n, _ in POOL if n not in FORMS_ONLY]
    yield ()
    if nparams >= 1:
        for a in names:
            yield (a,)
    if nparams >= 2:
        for t in itertools.product(names, repeat=2):
            yield t
    if nparams >= 3:
        base = names if tier == "thorough" else SUBPOOL
        for t in itertools.product(base, repeat=3):
            yield t
    if nparams >= 4:
        for t in itertools.product(POOL4, repeat=4):
            yield t


def nparams_of(fn):
    try:
        names = fn.getArgNames()
    except Exception:
        return 3
    n = len(names)
    if any(x.endswith("...") for x in names):
        return 3
    return n
