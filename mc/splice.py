"""Development tool: regenerate the generated parts of DESIGN.md
(Appendix A tables and the Appendix C table) from mc.report output."""
import re
import subprocess

rep = subprocess.run(["/venv/bin/python", "-m", "mc.report"], cwd="/verif",
                     capture_output=True, text=True).stdout
fixed = rep.split("### Known findings")[0].replace("### Fixed", "#### Fixed")
known = "#### Known findings" + rep.split("### Known findings")[1] \
    .split("### Seeded changes")[0]
seeded = rep.split("### Seeded changes and the checks that catch them")[1]
seeded = seeded.strip() + "\n"
d = open("/verif/DESIGN.md").read()
a0 = d.index("#### Fixed defects (one `fix:` commit each)")
a1 = d.index("## Appendix B")
d = d[:a0] + fixed.strip() + "\n\n" + known.strip() + "\n\n\n" + d[a1:]
c0 = d.index("| seeded change | breaks | needs | caught by (quick tier) |")
d = d[:c0] + seeded
open("/verif/DESIGN.md", "w").write(d)
print("spliced")

# optional: python -m mc.splice <thorough-log> also refreshes the I.2 table
import sys
if len(sys.argv) > 1:
    tab = subprocess.run(["/venv/bin/python", "-m", "mc.table", sys.argv[1]],
                         cwd="/verif", capture_output=True, text=True).stdout
    d = open("/verif/DESIGN.md").read()
    t0 = d.index("| id | quick: states / transitions / wall |")
    t1 = d.index("`states` = cases of the enumerated space")
    d = d[:t0] + tab.strip() + "\n\n" + d[t1:]
    open("/verif/DESIGN.md", "w").write(d)
    print("table refreshed")
