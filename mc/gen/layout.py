"""Token-level renderer with layout / spelling choice points.  The renderer
knows which tokens it emitted and on which 1-based line each one begins, so
it is the ground truth for C14 (meaning independent of layout) and C20
(reported lines)."""

PUNCT = {"(", ")", "[", "]", ",", ";"}

SEPS = [" ", "\t", "\n", "\r\n", "  ", "\n\n", " # c\n", "#\n", " # c\r\n",
        " #'\"//\n", "#c d\n"]
LEADS = ["", "\n", "\n\n\n", "\r\n", "# c\n", "  "]
TRAILS = ["", "\n", " ", " # c", " # c\n", "\r\n", "\n\n"]

MULTI = ("<<<", ">>>", "...", "<<", ">>", "<*", "*>", "=>", "==", "<>", "!=",
         "<=", ">=", "+=", "-=", "*=", "/=", "%=", "!>", "->")


def tokenize(text):
    """token texts of a program (string and pattern literals kept whole,
    comments dropped)"""
    out, i = [], 0
    n = len(text)
    while i < n:
        c = text[i]
        if c in " \t\r\n":
            i += 1
        elif c == "#":
            while i < n and text[i] != "\n":
                i += 1
        elif c in "'\"":
            j = i + 1
            while j < n and text[j] != c:
                j += 2 if text[j] == "\\" else 1
            out.append(text[i:j + 1])
            i = j + 1
        elif text.startswith("//", i):
            j = text.index("//", i + 2)
            out.append(text[i:j + 2])
            i = j + 2
        else:
            for op in MULTI:
                if text.startswith(op, i):
                    out.append(op)
                    i += len(op)
                    break
            else:
                if c in "()[],;+-*/%<>=":
                    out.append(c)
                    i += 1
                else:
                    j = i
                    while j < n and \
                            text[j] not in " \t\r\n()[],;+-*/%<>=!'\"#":
                        j += 1
                    if text.startswith("...", j):
                        j += 3
                    out.append(text[i:j])
                    i = max(j, i + 1)
    return out


# pure symbol tokens that may stand directly against a number, a name or a
# string (`1!=2`, `x+1`, `5!>f()`, `a->b`); two symbol tokens are never glued
GLUE_OPS = {"+", "-", "*", "/", "%", "==", "!=", "<>", "<", ">", "<=", ">=",
            "!>", "->", "=", "+=", "-=", "*=", "/=", "%=", "=>", "<<", ">>",
            "<*", "*>", "<<<", ">>>", "..."}


def is_word(t):
    return bool(t) and (t[0].isalnum() or t[0] in "_'\"") and \
        (t[-1].isalnum() or t[-1] in "_'\"")


def empty_ok(t1, t2):
    return t1 in PUNCT or t2 in PUNCT or \
        (t1 in GLUE_OPS and is_word(t2)) or (is_word(t1) and t2 in GLUE_OPS)


def render(tokens, seps=None, lead="", trail=""):
    """-> (text, lines) with lines[k] = 1-based line on which token k
    begins"""
    n = len(tokens)
    if seps is None:
        seps = [" "] * (n - 1)
    parts = [lead]
    line = 1 + lead.count("\n")
    lines = []
    for k, t in enumerate(tokens):
        lines.append(line)
        parts.append(t)
        line += t.count("\n")
        if k < n - 1:
            parts.append(seps[k])
            line += seps[k].count("\n")
    parts.append(trail)
    return "".join(parts), lines


def sep_choices(tokens, k):
    """alternatives for the separator after token k (default excluded)"""
    alts = list(SEPS[1:])
    if empty_ok(tokens[k], tokens[k + 1]):
        alts.append("")
    return alts


def deviations(tokens, maxdev):
    """all separator assignments with <= maxdev non-default separators"""
    n = len(tokens) - 1
    base = [" "] * n
    yield list(base)
    if maxdev >= 1:
        for i in range(n):
            for a in sep_choices(tokens, i):
                s = list(base)
                s[i] = a
                yield s
    if maxdev >= 2:
        for i in range(n):
            ai = sep_choices(tokens, i)
            for j in range(i + 1, n):
                aj = sep_choices(tokens, j)
                for a in ai:
                    for b in aj:
                        s = list(base)
                        s[i] = a
                        s[j] = b
                        yield s


def uniform(tokens):
    """one alternative used at every boundary (where legal)"""
    n = len(tokens) - 1
    for a in SEPS[1:] + [""]:
        yield [a if (a != "" or empty_ok(tokens[i], tokens[i + 1])) else " "
               for i in range(n)]


def tight(tokens):
    """the empty separator at every boundary where it is legal"""
    return [("" if empty_ok(tokens[i], tokens[i + 1]) else " ")
            for i in range(len(tokens) - 1)]


# ---- literal spellings -----------------------------------------------------
def is_int_token(t):
    return t.isdigit()


def int_spellings(t):
    v = int(t)
    out = [hex(v), "0x" + format(v, "X"), bin(v)]
    if len(t) >= 2:
        out.append(t[0] + "_" + t[1:])
        out.append(t + "_")
    h, b = format(v, "x"), format(v, "b")
    out += ["0x_" + h, "0x" + h + "_", "0b" + b + "_", "0b_" + b]
    if len(h) >= 2:
        out.append("0x" + h[0] + "_" + h[1:])
    if len(b) >= 2:
        out.append("0b" + b[0] + "_" + b[1:])
        out.append("0b" + b[:-1] + "__" + b[-1])
    out.append("0" + t)
    out.append("00" + t)
    return out


ESC = {"\n": "\\n", "\r": "\\r", "\t": "\\t", "\\": "\\\\"}


def string_content(t):
    """decode a quoted token to its characters (same escapes the language
    defines)"""
    q = t[0]
    body = t[1:-1]
    out, i = [], 0
    while i < len(body):
        c = body[i]
        if c == "\\" and i + 1 < len(body):
            d = body[i + 1]
            if d == "n":
                out.append("\n")
            elif d == "r":
                out.append("\r")
            elif d == "t":
                out.append("\t")
            elif d == "x":
                out.append(chr(int(body[i + 2:i + 4], 16)))
                i += 2
            else:
                out.append(d)
            i += 2
        else:
            out.append(c)
            i += 1
    return "".join(out)


def string_spellings(t):
    s = string_content(t)
    outs = []
    for q in ("'", '"'):
        plain = "".join(ESC.get(c, ("\\" + c) if c == q else c) for c in s)
        outs.append(q + plain + q)
        hexed = "".join("\\x%02x" % ord(c) if ord(c) < 256 else c
                        for c in s)
        outs.append(q + hexed + q)
        raw = "".join(c if c not in (q, "\\") else "\\" + c for c in s)
        outs.append(q + raw + q)     # raw control characters inside
    return [o for o in dict.fromkeys(outs) if o != t]


def spelling_variants(tokens):
    """all token lists that differ from tokens in the spelling of exactly one
    literal / operator"""
    for k, t in enumerate(tokens):
        alts = []
        if is_int_token(t):
            alts = int_spellings(t)
        elif t[0] in "'\"" and len(t) >= 2:
            if k + 1 < len(tokens) and tokens[k + 1] == "def":
                continue       # doc string position
            alts = string_spellings(t)
        elif t == "!=":
            alts = ["<>"]
        elif t == "<>":
            alts = ["!="]
        for a in alts:
            yield tokens[:k] + [a] + tokens[k + 1:]


def paren_variants(tokens):
    """wrap exactly one literal token in redundant parentheses"""
    for k, t in enumerate(tokens):
        lit = is_int_token(t) or t in ("TRUE", "FALSE") or \
            (t[0] in "'\"" and not (k + 1 < len(tokens)
                                    and tokens[k + 1] == "def")) or \
            (t.replace(".", "", 1).isdigit() and "." in t)
        if not lit:
            continue
        if k > 0 and tokens[k - 1] in ("require", "-", "+"):
            # after a sign the literal is folded into a signed literal,
            # which is a different production from unary minus on an
            # expression (the statement does not fix how `is P` predicates
            # bind relative to unary minus)
            continue
        yield tokens[:k] + ["(", t, ")"] + tokens[k + 1:]
        yield tokens[:k] + ["(", "(", t, ")", ")"] + tokens[k + 1:]


OPENERS = {"(", "[", ",", ";", "=", "+", "-", "*", "/", "%", "==", "!=",
           "<>", "<", "<=", ">", ">=", "=>", "<<", "<<<", "and", "or",
           "not", "then", "else", "do", "in", "return", "if", "elif",
           "+=", "-=", "*=", "/=", "%="}


CLOSE = {"(": ")", "[": "]", "<<": ">>", "<<<": ">>>", "<*": "*>"}


def bracket_literal_paren_variants(tokens):
    """wrap one complete list, set, map or object literal in redundant
    parentheses: <<>> !> f() -> (<<>>) !> f().  A `[` counts as the start of
    a literal only where an expression can start (after an operator, an
    opening bracket, a separator or at the very beginning)"""
    n = len(tokens)
    for k, t in enumerate(tokens):
        if t not in ("[", "<<", "<<<", "<*"):
            continue
        prev = tokens[k - 1] if k > 0 else ";"
        if prev not in OPENERS and prev not in ("!>", "->"):
            continue
        if prev in ("!>", "->"):
            continue
        if t == "[" and k + 1 < n:
            # destructuring targets look like list literals: `[a, b] = ...`,
            # `def [a, b] = ...`, `for [a, b] in ...`
            pass
        depth = 0
        end = None
        for j in range(k, n):
            if tokens[j] in CLOSE:
                depth += 1
            elif tokens[j] in CLOSE.values():
                depth -= 1
                if depth == 0:
                    end = j
                    break
        if end is None or tokens[end] != CLOSE[t]:
            continue
        if end + 1 < n and tokens[end + 1] in ("=", "in") and t == "[":
            continue          # a destructuring target
        if k > 0 and tokens[k - 1] in ("def", "for"):
            continue
        yield tokens[:k] + ["("] + tokens[k:end + 1] + [")"] + \
            tokens[end + 1:]


def key_paren_variants(tokens):
    """wrap the key of one map entry in redundant parentheses when it is a
    single token: <<<a => 1>>> -> <<<(a) => 1>>> (a bare name stays the
    string of that name)"""
    for k in range(len(tokens) - 1):
        t = tokens[k]
        if tokens[k + 1] != "=>" or k == 0 or \
                tokens[k - 1] not in ("<<<", ","):
            continue
        if not (t[0].isalnum() or t[0] in "_'\""):
            continue
        yield tokens[:k] + ["(", t, ")"] + tokens[k + 1:]


def element_paren_variants(tokens):
    """wrap one complete positional call argument or one list-literal
    element in redundant parentheses: f(a + 1, g(x)) -> f((a + 1), g(x))"""
    n = len(tokens)
    for k, t in enumerate(tokens):
        if t not in ("(", "["):
            continue
        prev = tokens[k - 1] if k > 0 else ""
        ident = bool(prev) and (prev[0].isalpha() or prev[0] == "_") and \
            prev not in OPENERS and prev not in (
                "fn", "def", "for", "while", "catch", "error", "require",
                "end", "TRUE", "FALSE", "NULL", "is", "to", "also", "keys",
                "values", "entries")
        if t == "(":
            # a call: name( or )( or ]( - but not a definition or fn(
            if not (ident or prev in (")", "]")):
                continue
            if k > 1 and tokens[k - 2] == "def":
                continue
            # method shorthand in an object literal: <* f(self) body *>
            if k > 1 and tokens[k - 2] in ("<*", ",") and \
                    tokens[:k].count("<*") > tokens[:k].count("*>"):
                continue
        else:
            # a list literal, not an index/slice
            if ident or prev in (")", "]", "def", "for") or \
                    (prev and prev[0] in "'\""):
                continue
        # split the bracket content into top-level elements
        depth, start, elems, j = 0, k + 1, [], k + 1
        stack = []
        ok = True
        while j < n:
            x = tokens[j]
            if x in CLOSE:
                stack.append(CLOSE[x])
            elif stack and x == stack[-1]:
                stack.pop()
            elif not stack and x == CLOSE[t]:
                elems.append((start, j))
                break
            elif not stack and x == ",":
                elems.append((start, j))
                start = j + 1
            elif not stack and x in ("do",):
                stack.append("end")
            j += 1
        else:
            ok = False
        if not ok:
            continue
        if t == "[" and j + 1 < n and tokens[j + 1] == "=":
            continue          # destructuring assignment target
        for (a, b) in elems:
            el = tokens[a:b]
            if not el or el[0] == "..." or (len(el) > 1 and el[1] == "=") \
                    or "for" in el and t == "[" or el[-1] == "..." \
                    or any(x in ("to",) for x in el):
                continue
            yield tokens[:a] + ["("] + el + [")"] + tokens[b:]


def operand_paren_variants(tokens):
    """wrap the whole operand of `error`, `return` or of a definition /
    assignment `=` in redundant parentheses: error 'E' + c -> error ('E' + c)
    (the operand extends to the next top-level statement end)"""
    enders = (";", "end", "catch", "finally", "then", "else", "elif", "do",
              ")", "]", ">>", ">>>", "*>", ",")
    n = len(tokens)
    for k, t in enumerate(tokens):
        if t in ("error", "return"):
            start = k + 1
        elif t == "=" and k >= 2 and (
                tokens[k - 2] == "def" or tokens[k - 1] == "]"
                or (k >= 2 and tokens[k - 2] in (";", "do", "then", "else")
                    ) or k == 1):
            start = k + 1
        else:
            continue
        if start >= n or tokens[start] in enders:
            continue
        stack, j = [], start
        while j < n:
            x = tokens[j]
            if x in CLOSE:
                stack.append(CLOSE[x])
            elif x == "do":
                stack.append("end")
            elif stack and x == stack[-1]:
                stack.pop()
            elif not stack and x in enders:
                break
            j += 1
        if stack or j == start:
            continue
        el = tokens[start:j]
        if "if" in el and "else" not in el:
            continue          # a dangling if would capture what follows
        yield tokens[:start] + ["("] + el + [")"] + tokens[j:]


def signed_paren_variants(tokens):
    """wrap a signed numeric literal (unary minus + literal) as a whole in
    redundant parentheses: `-1.5 in x` -> `(-1.5) in x`"""
    for k, t in enumerate(tokens):
        num = is_int_token(t) or (t.replace(".", "", 1).isdigit()
                                  and "." in t)
        if not num or k == 0 or tokens[k - 1] != "-":
            continue
        if k - 1 > 0 and tokens[k - 2] not in OPENERS:
            continue          # binary minus
        yield tokens[:k - 1] + ["(", "-", t, ")"] + tokens[k + 1:]


def semicolon_variants(tokens):
    """optional trailing semicolons: at the end of the script and before the
    end of a block"""
    if tokens and tokens[-1] != ";":
        yield tokens + [";"]
    if len(tokens) > 1 and tokens[-1] == ";" and tokens[-2] != "return":
        yield tokens[:-1]
    for k, t in enumerate(tokens):
        # an existing optional semicolon can be dropped
        if t == ";" and k + 1 < len(tokens) and \
                tokens[k + 1] in ("end", "catch", "finally") and \
                k > 0 and tokens[k - 1] != "return":
            yield tokens[:k] + tokens[k + 1:]
    for k, t in enumerate(tokens):
        if t in ("end", "catch", "finally") and k > 0 and \
                tokens[k - 1] not in (";", "do", "finally", "then", "else"):
            yield tokens[:k] + [";"] + tokens[k:]
    # the semicolon after a class member is optional as well (the next
    # member starts with the keyword def)
    for k in class_member_starts(tokens):
        if tokens[k - 1] == ";":
            yield tokens[:k - 1] + tokens[k:]
        else:
            yield tokens[:k] + [";"] + tokens[k:]
    ks = [k for k in class_member_starts(tokens) if tokens[k - 1] == ";"]
    if len(ks) > 1:
        yield [t for j, t in enumerate(tokens) if j + 1 not in ks]


def class_member_starts(tokens):
    """indices of the `def` tokens that start the 2nd, 3rd, ... member of a
    `def class X do ... end` body (only do/end nest)"""
    out = []
    for i in range(len(tokens) - 3):
        if tokens[i] == "def" and tokens[i + 1] == "class" and \
                tokens[i + 3] == "do":
            depth, first = 1, True
            for k in range(i + 4, len(tokens)):
                t = tokens[k]
                if t == "do":
                    depth += 1
                elif t == "end":
                    depth -= 1
                    if depth == 0:
                        break
                elif t == "def" and depth == 1:
                    if not first:
                        out.append(k)
                    first = False
    return out
