"""Development tool (not a registered check): apply a patch to a scratch copy
of /repo, confirm the repository's tests still pass, run a property's check
against the copy (VERIF_REPO) and report whether it raised the alarm.

usage: python -m mc.mutate <patch.diff> <PID>[,<PID>...] [--tier quick] [--notests]
"""
import os
import shutil
import subprocess
import sys
import tempfile


def main():
    patch = os.path.abspath(sys.argv[1])
    pids = sys.argv[2].split(",")
    tier = "quick"
    if "--tier" in sys.argv:
        tier = sys.argv[sys.argv.index("--tier") + 1]
    notests = "--notests" in sys.argv
    scratch = tempfile.mkdtemp(prefix="ckl-mut-")
    try:
        dst = os.path.join(scratch, "repo")
        shutil.copytree("/repo", dst, ignore=shutil.ignore_patterns(
            ".git", "__pycache__", "*.pyc", ".pytest_cache"))
        r = subprocess.run(["git", "apply", "--unsafe-paths", "--directory",
                            dst, patch], capture_output=True, text=True,
                           cwd="/")
        if r.returncode != 0:
            r = subprocess.run(["patch", "-p1", "-d", dst, "-i", patch],
                               capture_output=True, text=True)
            if r.returncode != 0:
                print("PATCH-FAILED", r.stdout[-500:], r.stderr[-500:])
                return 3
        if not notests:
            env = dict(os.environ, PYTHONPATH=os.path.join(dst, "src"))
            r = subprocess.run(
                ["/venv/bin/python", "-m", "pytest", "-q", "-p",
                 "no:cacheprovider", "-x"], cwd=dst, env=env,
                capture_output=True, text=True)
            tail = r.stdout.strip().splitlines()[-1] if r.stdout else ""
            print("tests:", tail)
        rc = 0
        for pid in pids:
            env = dict(os.environ, VERIF_REPO=dst,
                       VERIF_OUT=os.path.join(scratch, "out"))
            r = subprocess.run(["/verif/check", pid, "--tier", tier],
                               env=env, capture_output=True, text=True,
                               cwd="/verif")
            lines = [ln for ln in r.stdout.splitlines()
                     if ln.startswith(("VIOLATION", pid, "HARNESS",
                                       "KNOWN"))]
            sigs = [ln for ln in r.stdout.splitlines()
                    if "signature:" in ln]
            print(f"{pid}: exit={r.returncode}",
                  "DETECTED" if r.returncode == 1 else "MISSED"
                  if r.returncode == 0 else "ERROR")
            for ln in lines[-3:]:
                print("   ", ln[:200])
            for ln in sigs[:4]:
                print("   ", ln.strip()[:200])
            if r.returncode == 2:
                print(r.stdout[-1500:], r.stderr[-1500:])
            if r.returncode != 1:
                rc = 1
        return rc
    finally:
        shutil.rmtree(scratch, ignore_errors=True)


if __name__ == "__main__":
    sys.exit(main())
