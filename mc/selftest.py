"""setup-time self test: target import, fuel, outcome classification."""
import sys

from mc import core


def main():
    core.install_fuel()
    s = core.Session()
    assert s.run("1 + 2") == ("value", "int", "3"), s.run("1 + 2")
    assert s.reset().run("error 'x'")[0] == "rt"
    assert s.reset().run("(")[0] == "syn"
    o = s.reset().run("def f(n) f(n + 1); f(0)", fuel=2000)
    assert o[0] in ("hang", "host", "rt"), o
    o = s.reset().run("def x = 0; while x < 1 do x = x - 1; end", fuel=3000)
    assert o == ("hang", "fuel"), o
    assert s.reset().run("1 + 2") == ("value", "int", "3")
    assert core.strict_eq(core.from_value(core.to_value([1, 1.0, "a", None, True])), [1, 1.0, "a", None, True])
    assert not core.strict_eq(1, 1.0)
    print("selftest ok; ckl from", core.SRC)


if __name__ == "__main__":
    sys.exit(main())
