"""Development tool: prints the table of DESIGN.md section I.2 from the quick
evidence files and the log of a thorough sweep.

usage: python -m mc.table <thorough-log>   (log lines as printed by ./check)
"""
import json
import re
import sys

ENGINE = {
    "C01": "E1 token^<=3|4 and char^<=4|5 products; E2 prefixes, suffixes, "
           "single-token delete/insert/substitute (swap in thorough) of the "
           "base programs; 28 nestable constructs at depth 1..40 "
           "complete/truncated/unclosed/over-closed; every text parsed twice "
           "(state-dependent outcomes)",
    "C02": "flat operator pairs with grouping from an independent "
           "precedence-climbing parser; one operator x all pairs of a "
           "30-value wide pool; unary/binary; typed tree shapes x "
           "minimal/full parentheses; big-int pairs; predicate negation and "
           "predicate meaning; literal predicates; short-circuit logs",
    "C03": "parameter shapes x all argument lists over a 12-symbol alphabet, "
           "pipeline and method forms; scope plans (1-3 levels x action "
           "sequences incl. destructuring assignment); discriminating "
           "families (closures, member-path pipelines, fresh defaults, loop "
           "variables, rebinding built-ins)",
    "C04": "loop nests x exit insertions (0,1,2) x wrappers; if chains; "
           "iteration order; comprehensions vs explicit loops (reference and "
           "source-level differential incl. effects, all selectors, default "
           "selector against the named one); mutate-then-iterate; stray exits",
    "C05": "frame chains (32 frame kinds incl. loops over every iterable, "
           "callbacks, eval) x injections (20 kinds) at every slot, 0/1/2 "
           "injections; reference + finally-once invariant",
    "C06": "pool of values incl. dates, objects, nodes: all pairs, all "
           "triples (on the pair matrix), interchangeability, insertion "
           "orders, history-built values, one value under two names",
    "C07": "per-kind pools: all pairs/triples; sorted on all lists <=5|7 "
           "over 6 tagged elements x 5 call variants; enumeration orders; "
           "min/max plain and through key functions",
    "C08": "data values to depth 3 (incl. strings that spell a token) + all "
           "insertion orders of <=4|5 subsets of a 16-value mixed pool + "
           "every data value returned by the library call sweep (arity <= 2, "
           "pool extended by numbers beyond the float mantissa)",
    "C09": "audit-hook seam; natives x alias x contexts; flag programs "
           "(plain, compound, destructuring) also under host-supplied "
           "environments; non-secure world created before and after; BFS "
           "reachability; invocation sweep arity <=2|3, also from a scope "
           "that defines the OS names",
    "C10": "E4: session commands (definitions, failures, modules, output "
           "streams, generator state, nested caller environments), failed "
           "calls repeated at once; two interpreters x A/B taggings; "
           "fresh-replay cross-check; every failing library call of the "
           "call sweep (arity <= 2) run twice with an interpreter "
           "fingerprint before, between and after",
    "C11": "E4 x digraphs on 2 and 3 modules + families on 4-5; 25 importer "
           "commands per target module; bundled modules x sequences of <= 2 "
           "requires (4 forms x 3 spellings) with evaluations counted at "
           "the parser seam",
    "C12": "hash-permutation x construction-permutation product over 4 "
           "element pools; explicit paths + library calls discovered at run "
           "time; real PYTHONHASHSEED subprocess runs incl. syntax-tree "
           "renderings of the corpus",
    "C13": "every function x arity<=3 tuples from a 46-value pool (aliased "
           "variants; 4-tuples for 4-parameter functions) + syntactic forms; "
           "results walked for pieces that are no language values",
    "C14": "level L (token stream, <=2 deviations) + level E (end to end) "
           "incl. spelling, literal/element parentheses, semicolons; level P "
           "(operand-level parentheses differential)",
    "C15": "all sequences <=4|6 over 3 symbols x indices [-6,6]|[-9,9] x 20 "
           "forms",
    "C16": "(a) call sweep with before/after snapshots, result identity "
           "(top level and nested), operand snapshots of syntactic forms, "
           "literal freshness, prototype writes, string results that are "
           "an argument; (b) E4 alias graph, 49 operations",
    "C17": "every day + boundary days of the years + strides + seconds of "
           "the day + differences to the second + text side (parsing and "
           "formatting) + out-of-range day numbers",
    "C18": "all pairs of strings x 13 laws; replace triples; split2; "
           "interpolation templates; per-character case mapping",
    "C19": "lists <=3|4 over 7 elements; set algebra pairs; multiset "
           "permutations; key-function variants; big ints; words x shifts "
           "0..40",
    "C20": "token x follower x lead; token streams under <=2 deviations; "
           "planted faults x statement separators x (single-line / every "
           "single broken boundary / all boundaries broken), second file "
           "name in the same process; error positions of every failing call "
           "of the library sweep (arity <= 2)",
}


def human(n):
    n = int(n)
    for unit, div in (("M", 10 ** 6), ("k", 10 ** 3)):
        if n >= 10 * div or (n >= div and unit == "M"):
            return ("%.1f%s" % (n / div, unit)).replace(".0", "")
    return str(n)


def main():
    thorough = {}
    if len(sys.argv) > 1:
        for ln in open(sys.argv[1]):
            m = re.match(r"(C\d\d) tier=thorough .*states=(\d+) "
                         r"transitions=(\d+) .*wall=([\d.]+)s", ln)
            if m:
                thorough[m.group(1)] = (m.group(2), m.group(3), m.group(4))
    print("| id | quick: states / transitions / wall | thorough: "
          "transitions / wall | engine as built |")
    print("|---|---|---|---|")
    for i in range(1, 21):
        pid = "C%02d" % i
        ev = json.load(open("/verif/evidence/%s.json" % pid))
        cov = ev["coverage"]
        q = "%s / %s / %.0f s" % (human(cov.get("states", 0)),
                                  human(cov.get("transitions", 0)),
                                  ev["wall_s"])
        if ev.get("tier") != "quick":
            q += " (%s)" % ev.get("tier")
        t = thorough.get(pid)
        tt = "%s / %.0f s" % (human(t[1]), float(t[2])) if t else "-"
        print("| %s | %s | %s | %s |" % (pid, q, tt, ENGINE[pid]))


main()
