"""C16 Only documented mutators change their arguments; aliases see
mutations.

(a) E1 call sweep (shared with C13): every function x every argument tuple
(arity <= 3) with every container/string argument snapshotted (rendering and
identity structure) before and after the call; only argument 0 of the
documented in-place mutators may change, and copy-producing functions must
not return one of their argument containers.
(b) E4: all operation sequences up to length 2/3(/4) over an alias graph
(aliases, nested containers, map/object members, a closure, parameter
passing) driven through the real interpreter with fork snapshots; after every
step every variable's rendering and the identity partition of all handles are
compared with a reference heap model.
"""
import itertools
import time

from mc import core, e4, sweep

PID = "C16"

MUTATORS = {"append", "append_all", "insert_at", "delete_at", "remove",
            "put"}
# functions that must hand out a fresh top-level container
COPYING = {"add", "sub", "mul", "sorted", "sublist", "zip", "reverse",
           "reverse_list", "unique", "filter", "map_list", "flatten",
           "union", "intersection", "diff", "symmetric_diff", "range",
           "interval", "enumerate", "pairs", "chunks", "grouped", "zip_map",
           "split", "split2", "lines", "words", "first_n", "last_n", "rest",
           "grep", "permutations", "substitute"}

# functions documented to return one of their arguments as it is (a
# selection, not a produced value); every other function that returns a
# string must return one of its own: strings can be changed by element
# assignment, so a result that is the argument object itself is not
# independent of its input
SELECTORS = {"identity", "if_null", "if_empty", "if_null_or_empty",
             "non_empty", "non_zero", "min", "max", "choice", "median",
             "median_high", "median_low", "gcd", "eval", "div0", "map_get",
             "map_get_pattern", "reduce", "first", "last", "list_min_key",
             "list_max_key"}

# functions whose result is made of pieces cut from the argument: no piece
# may be the argument container itself
NESTED_FRESH = {"chunks", "grouped", "permutations", "pairs", "zip",
                "enumerate", "split", "split2", "lines", "words"}


def contains_object(v, target, depth=0):
    """identity search for `target` strictly inside container v"""
    V = core.ckl.values
    if depth > 6:
        return False
    if isinstance(v, V.ValueList):
        kids = v.value
    elif isinstance(v, V.ValueSet):
        kids = list(v.value)
    elif isinstance(v, V.ValueMap):
        kids = list(v.value.keys()) + list(v.value.values())
    elif isinstance(v, V.ValueObject):
        kids = list(v.value.values())
    else:
        return False
    return any(k is target or contains_object(k, target, depth + 1)
               for k in kids)


_S = {}


def sess():
    if "s" not in _S:
        _S["s"] = sweep.SweepSession(legacy=True)
    return _S["s"]


def snapshot(v, seen=None):
    """(plain rendering, identity structure) of a value"""
    V = core.ckl.values
    ids = {}

    def walk(x, depth=0):
        if depth > 6:
            return "..."
        if isinstance(x, V.ValueList):
            n = ids.setdefault(id(x), len(ids))
            return ["L%d" % n] + [walk(e, depth + 1) for e in x.value]
        if isinstance(x, V.ValueSet):
            n = ids.setdefault(id(x), len(ids))
            return ["S%d" % n] + sorted((walk(e, depth + 1)
                                         for e in x.value), key=repr)
        if isinstance(x, V.ValueMap):
            n = ids.setdefault(id(x), len(ids))
            return ["M%d" % n] + sorted(
                ([walk(k, depth + 1), walk(w, depth + 1)]
                 for k, w in x.value.items()), key=repr)
        if isinstance(x, V.ValueObject):
            n = ids.setdefault(id(x), len(ids))
            return ["O%d" % n] + [[k, walk(w, depth + 1)]
                                  for k, w in x.value.items()]
        if isinstance(x, V.ValueString):
            return ["str", x.value]
        if isinstance(x, (V.ValueInt, V.ValueDecimal)):
            return [x.type(), repr(x.value)]
        return [type(x).__name__]
    return walk(v)


def is_container(v):
    V = core.ckl.values
    return isinstance(v, (V.ValueList, V.ValueSet, V.ValueMap,
                          V.ValueObject))


def base_name(fname):
    return fname.split("->")[-1]


def explore_calls(chunk):
    agg = core.Agg()
    s = sess()
    fmap = dict(s.funcs)
    for fname, first, tier in chunk:
        fn = fmap[fname]
        n = sweep.nparams_of(fn)
        bname = base_name(fname)
        for t in sweep.arg_tuples(n, tier):
            if first is None:
                if len(t) > 1:
                    continue
            elif len(t) < 2 or t[0] != first:
                continue
            args = [sweep.POOL[sweep.POOL_INDEX[a]][1](s) for a in t]
            before = [snapshot(a) for a in args]
            o = call_with(s, fn, args)
            agg.count("steps")
            agg.cls((fname, o[0]))
            after = [snapshot(a) for a in args]
            for k, (b, a) in enumerate(zip(before, after)):
                if b == a:
                    continue
                if bname in MUTATORS and k == 0:
                    continue
                agg.violation(
                    {"what": "argument-modified", "callee": fname,
                     "arg": k},
                    {"kind": "call", "callee": fname, "args": list(t)},
                    b, a, size=len(t) * 100 + sum(len(x) for x in t))
            if bname in COPYING and o[0] == "value" and is_container(o[1]):
                for k, a in enumerate(args):
                    if o[1] is a:
                        agg.violation(
                            {"what": "result-is-argument", "callee": fname,
                             "arg": k},
                            {"kind": "call", "callee": fname,
                             "args": list(t), "identity": True},
                            "a fresh container", "argument %d itself" % k,
                            size=len(t) * 100 + sum(len(x) for x in t))
            if o[0] == "value" and bname not in SELECTORS and \
                    bname not in MUTATORS and \
                    isinstance(o[1], core.ckl.values.ValueString):
                for k, a in enumerate(args):
                    if o[1] is a:
                        agg.violation(
                            {"what": "string-result-is-argument",
                             "callee": fname},
                            {"kind": "call", "callee": fname,
                             "args": list(t), "identity": True},
                            "a string of its own", "argument %d itself "
                            "(element assignment to the result changes the "
                            "argument)" % k,
                            size=len(t) * 100 + sum(len(x) for x in t))
            if bname in NESTED_FRESH and o[0] == "value" and \
                    is_container(o[1]):
                for k, a in enumerate(args):
                    if is_container(a) and not core.is_cyclic(a) and \
                            contains_object(o[1], a):
                        agg.violation(
                            {"what": "result-contains-argument",
                             "callee": fname, "arg": k},
                            {"kind": "call", "callee": fname,
                             "args": list(t), "nested": True},
                            "pieces that are containers of their own",
                            "argument %d itself inside the result" % k,
                            size=len(t) * 100 + sum(len(x) for x in t))
            if agg.n["steps"] % 20000 == 1:
                agg.sample({"call": fname, "args": list(t),
                            "before": before, "after": after}, 3)
        agg.count("cases")
    return agg


# syntactic forms (shared with C13) that are allowed to change an operand
MUTATING_FORMS = {
    "idx assign", "member assign", "self append", "self put",
    "mutate in for", "mutate in for keys", "remove in for",
    "mutate in comprehension", "mutate in comprehension keys",
    "mutate in comprehension values", "mutate in comprehension entries",
}


# forms that compute a new value (as opposed to selecting one of their
# operands, like indexing, `if`, `and`/`or`, calls and member access)
PRODUCING = ("bin +", "bin -", "bin *", "bin /", "bin %", "slice",
             "self add", "s plain", "s#", "sprintf", "arith3", "neg",
             "list spread", "lc", "sc", "mc", "string of")


def produces(fname):
    return fname.startswith(PRODUCING) and fname != "string of"


def explore_forms(chunk):
    """every syntactic form of the C13 catalogue x pool^holes with the
    operands snapshotted before and after: reading constructs (operators,
    indexing, slicing, iteration, destructuring, spread, comprehension,
    literals) never modify their operands"""
    from mc.props import c13
    agg = core.Agg()
    s = sess()
    c13._S.setdefault("s", s)
    c13._S.setdefault("forms", {})
    names = [n for n, _ in sweep.POOL]
    for fname, first, tier in chunk:
        src, holes = c13.FORMS2[fname]
        if fname in MUTATING_FORMS or "=" in fname.split()[-1] and \
                fname.split()[0] in ("idx", "member", "var"):
            continue
        pool3 = names if tier == "thorough" else sweep.SUBPOOL
        if holes == 1:
            tuples = [(first,)]
        elif holes == 2:
            tuples = [(first, b) for b in names]
        else:
            if first not in pool3:
                continue
            tuples = [(first, b, c) for b in pool3 for c in pool3]
        for t in tuples:
            if "10^400" in t and "*" in src:
                continue      # a repeat count of 10^400: resource exhaustion
            args = [sweep.POOL[sweep.POOL_INDEX[a]][1](s) for a in t]
            if any(isinstance(a, (core.ckl.values.ValueInput,
                                  core.ckl.values.ValueOutput))
                   for a in args):
                continue
            before = [snapshot(a) for a in args]
            env = s.env.newEnv()
            for nm, v in zip("xyz", args):
                env.put(nm, v)
            s.session._bind_streams()
            node = c13.form_node(fname)
            core.set_fuel(30000, 30000)
            core.arm(10.0)
            try:
                o = core.outcome_raw(lambda: node.evaluate(env))
            finally:
                core.disarm()
                core.set_fuel(10 ** 12, 10 ** 12)
            agg.count("steps")
            after = [snapshot(a) for a in args]
            agg.cls(("form", fname))
            if produces(fname) and o[0] == "value" and (
                    is_container(o[1]) or
                    isinstance(o[1], core.ckl.values.ValueString)):
                for k, a in enumerate(args):
                    if o[1] is a:
                        agg.violation(
                            {"what": "form-result-is-operand", "form": fname},
                            {"kind": "form", "form": fname, "src": src,
                             "args": list(t)},
                            "a value of its own", "operand %d itself" % k,
                            size=len(t) * 100 + sum(len(x) for x in t))
            for k, (b, a) in enumerate(zip(before, after)):
                if b != a:
                    agg.violation(
                        {"what": "operand-modified-by-form",
                         "form": fname, "arg": k},
                        {"kind": "form", "form": fname, "src": src,
                         "args": list(t)}, b, a,
                        size=len(t) * 100 + sum(len(x) for x in t))
        agg.count("cases")
    return agg


# ---- literals are values of their own ---------------------------------------
# (literal text, [mutations of the value held in t])
LITERALS = [
    ("'abc'", ["t[0] = 'X'", "t[-1] = 'X'"]),
    ("[1, 2]", ["t[0] = 9", "append(t, 9)", "delete_at(t, 0)",
                "insert_at(t, 0, 9)", "remove(t, 1)", "append_all(t, [7])"]),
    ("<<1, 2>>", ["append(t, 9)", "remove(t, 1)"]),
    ("<<<'a' => 1>>>", ["t['a'] = 2", "put(t, 'b', 3)", "remove(t, 'a')"]),
    ("<*m = 1*>", ["t->m = 9", "t->n = 5", "t['m'] = 7"]),
    ("[[1], 'ab']", ["t[0][0] = 9", "append(t[0], 5)", "t[1][0] = 'X'"]),
    ("<<<'k' => 'ab', 'l' => [1]>>>", ["t['k'][0] = 'X'",
                                      "append(t['l'], 2)"]),
    ("<*m = 'ab', n = [1]*>", ["t->m[0] = 'X'", "append(t->n, 2)"]),
    ("[<<1>>, <<<1 => [2]>>>]", ["append(t[0], 2)", "append(t[1][1], 3)"]),
    ("'a' + 'b'", ["t[0] = 'X'"]),
    # a string of one character still has a position that can be replaced
    ("'a'", ["t[0] = 'xy'", "t[-1] = 'X'"]),
    ("['a']", ["t[0][0] = 'xy'"]),
    # the empty literals (candidates for being folded into one constant)
    ("[]", ["append(t, 9)", "append_all(t, [7])", "insert_at(t, 0, 9)"]),
    ("<<>>", ["append(t, 9)"]),
    ("<<<>>>", ["t['a'] = 2", "put(t, 'b', 3)"]),
    ("<**>", ["t->n = 5", "t['m'] = 7"]),
    ("[[]]", ["append(t[0], 5)"]),
    ("<<<'k' => <<<>>> >>>", ["t['k']['a'] = 1"]),
    ("[x * 2 for x in [1, 2]]", ["t[0] = 9"]),
]
# contexts in which the same literal is evaluated again after a value it
# produced earlier was modified; {L} literal, {M} mutation; the result must
# be [first rendering, rendering of the later evaluation], both equal
CONTEXTS = {
    "function": "def g() {L}; def before = string(g()); def t = g(); {M}; "
                "[before, string(g())]",
    "lambda-def": "def g = fn() {L}; def before = string(g()); "
                  "def t = g(); {M}; [before, string(g())]",
    "default": "def g(p = {L}) p; def before = string(g()); def t = g(); "
               "{M}; [before, string(g())]",
    "loop": "def r = []; for k in [1, 2] do def t = {L}; "
            "append(r, string(t)); {M}; end; r",
    "while": "def r = []; def k = 0; while k < 2 do k += 1; def t = {L}; "
             "append(r, string(t)); {M}; end; r",
    "comprehension": "def r = [{L} for k in [1, 2]]; "
                     "def before = string(r[1]); def t = r[0]; {M}; "
                     "[before, string(r[1])]",
    "method": "def o = <*get = fn(self) {L}*>; def before = string(o->get()); "
              "def t = o->get(); {M}; [before, string(o->get())]",
    "two-interprets": None,      # handled by C10 (session commands)
}


def explore_literals(chunk):
    """a literal (or another non-mutating expression) evaluated again after
    the value of an earlier evaluation was modified yields the original
    value: element/member assignment and the mutators change exactly the
    targeted container and nothing else"""
    agg = core.Agg()
    s = core.Session(secure=True, legacy=True)
    for lit, muts in chunk:
        for cname, tpl in CONTEXTS.items():
            if tpl is None:
                continue
            for mut in muts:
                src = tpl.replace("{L}", lit).replace("{M}", mut)
                s.reset()
                o = s.run(src, "literal", fuel=30000)
                agg.count("steps")
                agg.cls(("literal", cname, o[0]))
                ok = o[0] == "value" and o[1] == "list" and \
                    literal_pair_equal(o[2])
                if not ok:
                    agg.violation(
                        {"what": "literal-changed", "context": cname,
                         "literal": lit},
                        {"kind": "literal", "src": src},
                        "[v, v] (both evaluations render the same)",
                        list(o), size=len(src))
        agg.count("cases")
    return agg


def proto_programs():
    """member assignment through a prototype chain writes to the receiver
    only: chains of depth 1..3, the member owned by any one ancestor (or by
    nobody), every assignment form, observed through the receiver, a
    sibling of the receiver and every ancestor"""
    forms = {
        "member": ("leaf->limit = 99", lambda old: 99),
        "index": ("leaf['limit'] = 98", lambda old: 98),
        "member+=": ("leaf->limit += 1",
                     lambda old: None if old is None else old + 1),
        "method": ("leaf->setlimit(97)", lambda old: 97),
        "method+=": ("leaf->bump()",
                     lambda old: None if old is None else old + 1),
        # removing a member the object only inherits changes nothing (it is
        # not a member of the object) - whether it raises or not
        "remove-inherited": ("do remove(leaf, 'limit') catch all NULL end",
                             lambda old: old),
    }
    for depth in (1, 2, 3):
        for owner in list(range(depth)) + [None]:
            for fname, (stmt, newval) in forms.items():
                if owner is None and fname.endswith("+="):
                    continue      # NULL + 1: not about aliasing
                lines = []
                for lvl in range(depth):
                    ms = []
                    if lvl == owner:
                        ms.append("limit = 10")
                    if lvl == 0:
                        ms.append("setlimit = fn(self, v) self->limit = v")
                        ms.append("bump = fn(self) self->limit += 1")
                    if lvl > 0:
                        ms.append("_proto_ = p%d" % (lvl - 1))
                    lines.append("def p%d = <*%s*>" % (lvl, ", ".join(ms)))
                top = "p%d" % (depth - 1)
                lines.append("def leaf = <*_proto_ = %s*>" % top)
                lines.append("def sibling = <*_proto_ = %s*>" % top)
                lines.append(stmt)
                obs = ["leaf->limit", "sibling->limit"] + \
                    ["p%d->limit" % k for k in range(depth)]
                src = "; ".join(lines) + "; [" + ", ".join(obs) + "]"
                old = 10 if owner is not None else None
                exp = [newval(old), old] + \
                    [old if (owner is not None and k >= owner) else None
                     for k in range(depth)]
                yield fname, depth, owner, src, exp


def explore_protos(chunk):
    agg = core.Agg()
    s = core.Session(secure=True, legacy=True)
    for fname, depth, owner, src, exp in proto_programs():
        s.reset()
        o = core.outcome_raw(lambda: s.interp.interpret(src, "proto"))
        agg.count("steps")
        got = core.from_value(o[1]) if o[0] == "value" else core.show_raw(o)
        agg.cls(("proto", fname, o[0]))
        if got != exp:
            agg.violation({"what": "prototype-write", "form": fname},
                          {"kind": "proto", "src": src, "_exp": exp},
                          exp, got, size=len(src))
        agg.count("cases")
    return agg


def compound_programs():
    """x[k, d] op= v (and x->m op= v) is the element assignment
    x[k] = x[k, d] op v: same container afterwards, nothing else touched"""
    targets = {
        "map-missing": ("<<<'b' => 5>>>", "t['a', 10]", "t['a']",
                        "t['a', 10]"),
        "map-present": ("<<<'a' => 7, 'b' => 5>>>", "t['a', 10]", "t['a']",
                        "t['a', 10]"),
        "map-nodefault": ("<<<'a' => 7>>>", "t['a']", "t['a']", "t['a']"),
        "obj-missing": ("<*b = 5*>", "t['a', 10]", "t['a']", "t['a', 10]"),
        "obj-present": ("<*a = 7, b = 5*>", "t['a', 10]", "t['a']",
                        "t['a', 10]"),
        "obj-member": ("<*a = 7, b = 5*>", "t->a", "t->a", "t->a"),
        "list": ("[7, 5]", "t[0]", "t[0]", "t[0]"),
        "list-neg": ("[7, 5]", "t[-1]", "t[-1]", "t[-1]"),
    }
    for tname, (lit, lhs, plain, read) in targets.items():
        for op in ("+", "-", "*", "/", "%"):
            for v in ("3", "2.5", "'x'" if op == "+" else "4"):
                a = (f"do def t = {lit}; def u = t; {lhs} {op}= {v}; "
                     f"[string(t), u == t] end")
                b = (f"do def t = {lit}; def u = t; "
                     f"{plain} = {read} {op} {v}; [string(t), u == t] end")
                yield tname, op, f"[{a}, {b}]"


def explore_compound(chunk):
    agg = core.Agg()
    s = core.Session(secure=True, legacy=True)
    for tname, op, src in compound_programs():
        s.reset()
        o = s.run(src, "compound", fuel=30000)
        agg.count("steps")
        agg.cls(("compound", tname, op, o[0]))
        if not (o[0] == "value" and o[1] == "list"
                and literal_pair_equal(o[2])):
            agg.violation({"what": "compound-assignment", "target": tname,
                           "op": op},
                          {"kind": "literal", "src": src},
                          "[v, v] (compound and explicit form agree)",
                          list(o), size=len(src))
    agg.count("cases")
    return agg


def literal_pair_equal(text):
    """'[<a>, <b>]' rendering of a two-element list of strings"""
    try:
        node = core.ckl.parser.parse_script(text, "pair")
        v = node.evaluate(core.ckl.functions.get_none_environment())
        return len(v.value) == 2 and v.value[0] == v.value[1]
    except BaseException:
        return False


def call_with(s, fn, args):
    env = s.env.newEnv()
    env.put("f", fn)
    for nm, v in zip("abcd", args):
        env.put(nm, v)
    s.session._bind_streams()
    sweep.F.seed = 1
    node = s.form(len(args))
    core.set_fuel(30000, 30000)
    core.arm(10.0)
    try:
        return core.outcome_raw(lambda: node.evaluate(env))
    finally:
        core.disarm()
        core.set_fuel(10 ** 12, 10 ** 12)


# ---- (b) alias graphs --------------------------------------------------------
SETUP = ("def a = [1, 2]; def b = a; def c = [a, [3]]; def s = <<1, 2>>; "
         "def t = s; def m = <<<'k' => a>>>; def o = <*f = a*>; "
         "def g = fn() a; def mut(p) append(p, 9); "
         "def reb(p) do p = p + [9]; p end; def r = NULL;")


class HList:
    def __init__(self, items=()):
        self.items = list(items)


class HSet:
    def __init__(self, items=()):
        self.items = []
        for x in items:
            self.add(x)

    def add(self, x):
        if not any(heq(x, y) for y in self.items):
            self.items.append(x)


class HMap:
    def __init__(self):
        self.entries = {}


class HObj:
    def __init__(self):
        self.members = {}


def heq(x, y):
    if isinstance(x, HList) and isinstance(y, HList):
        return len(x.items) == len(y.items) and all(
            heq(p, q) for p, q in zip(x.items, y.items))
    if isinstance(x, HSet) and isinstance(y, HSet):
        return len(x.items) == len(y.items) and all(
            any(heq(p, q) for q in y.items) for p in x.items)
    if isinstance(x, (HList, HSet, HMap, HObj)) or \
            isinstance(y, (HList, HSet, HMap, HObj)):
        return x is y
    return x == y and type(x) is type(y)


def hrender(x):
    if x is None:
        return "NULL"
    if isinstance(x, bool):
        return "TRUE" if x else "FALSE"
    if isinstance(x, int):
        return str(x)
    if isinstance(x, str):
        return "'" + x + "'"
    if isinstance(x, HList):
        return "[" + ", ".join(hrender(e) for e in x.items) + "]"
    if isinstance(x, HSet):
        return "<<" + ", ".join(hrender(e) for e in sorted(x.items)) + ">>"
    if isinstance(x, HMap):
        return "<<<" + ", ".join(
            hrender(k) + " => " + hrender(v)
            for k, v in sorted(x.entries.items())) + ">>>"
    if isinstance(x, HObj):
        return "<*" + ", ".join(k + "=" + hrender(v)
                                for k, v in x.members.items()) + "*>"
    raise TypeError(x)


class Heap:
    def __init__(self):
        a = HList([1, 2])
        s = HSet([1, 2])
        self.v = {"a": a, "b": a, "c": HList([a, HList([3])]), "s": s,
                  "t": s, "r": None}
        self.m = HMap()
        self.m.entries["k"] = a
        self.o = HObj()
        self.o.members["f"] = a
        self.g = a            # the closure reads variable a (never rebound)

    def copy(self):
        import copy
        return copy.deepcopy(self)


class Fail(Exception):
    pass


def need_list(x):
    if not isinstance(x, HList):
        raise Fail()
    return x


def m_append(h, x, v):
    if isinstance(x, HList):
        x.items.append(v)
    elif isinstance(x, HSet):
        x.add(v)
    else:
        raise Fail()


def m_remove(h, x, v):
    if isinstance(x, HList):
        for i, e in enumerate(x.items):
            if heq(e, v):
                del x.items[i]
                return
        raise Fail()
    if isinstance(x, HSet):
        for i, e in enumerate(x.items):
            if heq(e, v):
                del x.items[i]
                return
        raise Fail()
    raise Fail()


def fresh(items):
    return HList(list(items))


def setr(h, val):
    h.v["r"] = val


OPS = [
    # (name, source, model)
    ("append a", "append(a, 7)", lambda h: m_append(h, h.v["a"], 7)),
    ("append b", "append(b, 8)", lambda h: m_append(h, h.v["b"], 8)),
    ("append_all", "append_all(a, [5, 6])",
     lambda h: h.v["a"].items.extend([5, 6])),
    ("insert_at", "insert_at(a, 0, 4)",
     lambda h: h.v["a"].items.insert(0, 4)),
    ("delete_at", "delete_at(a, 0)",
     lambda h: h.v["a"].items.pop(0) if h.v["a"].items else None),
    ("remove", "remove(a, 2)", lambda h: m_remove(h, h.v["a"], 2)),
    ("elem assign", "a[0] = 0",
     lambda h: h.v["a"].items.__setitem__(0, 0) if h.v["a"].items
     else (_ for _ in ()).throw(Fail())),
    ("put", "put(m, 'j', a)",
     lambda h: h.m.entries.__setitem__("j", h.v["a"])),
    ("map assign", "m['k'] = [0]",
     lambda h: h.m.entries.__setitem__("k", HList([0]))),
    ("member assign", "o->f = [1]",
     lambda h: h.o.members.__setitem__("f", HList([1]))),
    ("param", "mut(a)", lambda h: m_append(h, h.v["a"], 9)),
    ("closure", "append(g(), 3)", lambda h: m_append(h, h.g, 3)),
    ("nested", "append(c[0], 6)",
     lambda h: m_append(h, h.v["c"].items[0], 6)),
    ("via map", "append(m['k'], 1)",
     lambda h: m_append(h, h.m.entries["k"], 1)),
    ("via object", "append(o->f, 2)",
     lambda h: m_append(h, h.o.members["f"], 2)),
    ("append s", "append(s, 5)", lambda h: m_append(h, h.v["s"], 5)),
    ("append t", "append(t, 6)", lambda h: m_append(h, h.v["t"], 6)),
    ("remove s", "remove(s, 1)", lambda h: m_remove(h, h.v["s"], 1)),
    # two mutations with no read in between that leave the size as it was
    ("swap s", "do remove(s, 2); append(t, 9); end",
     lambda h: (m_remove(h, h.v["s"], 2), m_append(h, h.v["t"], 9))),
    ("swap a", "do delete_at(a, 0); append(b, 4); end",
     lambda h: (need_list(h.v["a"]).items.pop(0) if h.v["a"].items
                else None, m_append(h, h.v["b"], 4))),
    ("r = a + [7]", "r = a + [7]",
     lambda h: setr(h, fresh(h.v["a"].items + [7]))),
    ("r = a + 7", "r = a + 7",
     lambda h: setr(h, fresh(h.v["a"].items + [7]))),
    ("r = [0] + a", "r = [0] + a",
     lambda h: setr(h, fresh([0] + h.v["a"].items))),
    ("r = a - [2]", "r = a - [2]",
     lambda h: setr(h, fresh([x for x in h.v["a"].items
                              if not heq(x, 2)]))),
    ("r = a * 1", "r = a * 1", lambda h: setr(h, fresh(h.v["a"].items))),
    ("r = a * 2", "r = a * 2", lambda h: setr(h, fresh(h.v["a"].items * 2))),
    ("r = sorted(a)", "r = sorted(a)",
     lambda h: setr(h, fresh(sorted(h.v["a"].items)))),
    ("r = sublist", "r = sublist(a, 0)",
     lambda h: setr(h, fresh(h.v["a"].items))),
    ("r = slice", "r = a[0 to *]",
     lambda h: setr(h, fresh(h.v["a"].items))),
    ("r = reverse", "r = reverse_list(a)",
     lambda h: setr(h, fresh(h.v["a"].items[::-1]))),
    ("r = comprehension", "r = [e for e in a]",
     lambda h: setr(h, fresh(h.v["a"].items))),
    ("r = spread", "r = [...a]", lambda h: setr(h, fresh(h.v["a"].items))),
    ("r = zip", "r = zip(a, a)",
     lambda h: setr(h, fresh([HList([x, x]) for x in h.v["a"].items]))),
    ("r = unique", "r = unique(a)",
     lambda h: setr(h, fresh(_uniq(h.v["a"].items)))),
    ("r = filter", "r = filter(a, fn(x) TRUE)",
     lambda h: setr(h, fresh(h.v["a"].items))),
    ("r = map_list", "r = map_list(a, fn(x) x)",
     lambda h: setr(h, fresh(h.v["a"].items))),
    ("r = flatten", "r = flatten(c)",
     lambda h: setr(h, fresh([y for x in h.v["c"].items
                              for y in (x.items if isinstance(x, HList)
                                        else [x])]))),
    ("r = union", "r = union(s, <<9>>)",
     lambda h: setr(h, HSet(h.v["s"].items + [9]))),
    ("r = intersection", "r = intersection(s, t)",
     lambda h: setr(h, HSet(h.v["s"].items))),
    ("r = diff", "r = diff(s, <<1>>)",
     lambda h: setr(h, HSet([x for x in h.v["s"].items if x != 1]))),
    ("r = s + set", "r = s + <<7>>",
     lambda h: setr(h, HSet(h.v["s"].items + [7]))),
    ("r = s - set", "r = s - <<1>>",
     lambda h: setr(h, HSet([x for x in h.v["s"].items if x != 1]))),
    ("r = set(a)", "r = set(a)",
     lambda h: setr(h, HSet(_hashable(h.v["a"].items)))),
    ("r = list(s)", "r = list(s)",
     lambda h: setr(h, fresh(sorted(h.v["s"].items)))),
    ("r = reb(a)", "r = reb(a)",
     lambda h: setr(h, fresh(h.v["a"].items + [9]))),
    ("r = a", "r = a", lambda h: setr(h, h.v["a"])),
    ("r = c[0]", "r = c[0]", lambda h: setr(h, h.v["c"].items[0])),
    ("r = g()", "r = g()", lambda h: setr(h, h.g)),
    ("r = s", "r = s", lambda h: setr(h, h.v["s"])),
    ("mutate r", "append(r, 7)", lambda h: m_append(h, h.v["r"], 7)),
    ("delete from r", "delete_at(r, 0)",
     lambda h: need_list(h.v["r"]).items.pop(0)
     if need_list(h.v["r"]).items else None),
]
OPNAMES = [o[0] for o in OPS]
OPMAP = {o[0]: o for o in OPS}
CORE_OPS = ["append a", "append b", "delete_at", "elem assign", "param",
            "closure", "nested", "via map", "map assign", "append s",
            "swap s",
            "r = a + [7]", "r = a * 1", "r = sorted(a)", "r = sublist",
            "r = slice", "r = spread", "r = unique", "r = union",
            "r = set(a)", "r = reb(a)", "r = a", "r = s", "mutate r",
            "delete from r"]


def _uniq(items):
    out = []
    for x in items:
        if not any(heq(x, y) for y in out):
            out.append(x)
    return out


def _hashable(items):
    return items


OBSERVE = ("[string(a), string(b), string(c), string(s), string(t), "
           "string(m), string(o), string(r), string(g())]")
HANDLES = ["a", "b", "c[0]", "s", "t", "m['k']", "o->f", "g()", "r"]


class Aliases(e4.Explorer):
    def __init__(self, ops, firsts=None):
        self.ops = ops
        self.firsts = firsts

    def alphabet(self, state, model, history):
        if not history and self.firsts is not None:
            return self.firsts
        return self.ops

    def execute(self, state, cmd):
        s = state
        core.set_fuel(100000, 100000)
        try:
            o = core.outcome_of(lambda: s.interp.interpret(OPMAP[cmd][1],
                                                           "op"))
            texts = core.outcome_of(lambda: s.interp.interpret(OBSERVE,
                                                               "obs"))
            vals = []
            for hdl in HANDLES:
                try:
                    vals.append(s.interp.interpret(hdl, "h"))
                except BaseException:
                    vals.append(None)
        finally:
            core.set_fuel(10 ** 12, 10 ** 12)
        part = partition([id(v) if v is not None and _cont(v) else None
                          for v in vals])
        return {"resp": o[0] if o[0] in ("value", "rt") else list(o),
                "vars": texts[2] if texts[0] == "value" else list(texts),
                "same": part}

    def model_step(self, model, cmd):
        h = model.copy()
        try:
            OPMAP[cmd][2](h)
            resp = "value"
        except (Fail, IndexError, KeyError):
            h = model.copy()
            resp = "rt"
        vals = [h.v["a"], h.v["b"], h.v["c"].items[0]
                if h.v["c"].items else None, h.v["s"], h.v["t"],
                h.m.entries.get("k"), h.o.members.get("f"), h.g, h.v["r"]]
        texts = "[" + ", ".join(
            "'" + ("" if x is None else hrender(x)).replace(
                "\\", "\\\\").replace("'", "\\'")
            + "'" for x in
            [h.v["a"], h.v["b"], h.v["c"], h.v["s"], h.v["t"], h.m, h.o,
             h.v["r"], h.g]) + "]"
        part = partition([id(v) if isinstance(v, (HList, HSet, HMap, HObj))
                          else None for v in vals])
        return h, {"resp": resp, "vars": texts, "same": part}

    def judge(self, agg, history, cmd, expected, obs):
        agg.cls((cmd, obs["resp"] if isinstance(obs["resp"], str)
                 else "bad"))
        for what in ("resp", "vars", "same"):
            if obs[what] != expected[what]:
                agg.violation(
                    {"what": what, "op": cmd},
                    {"kind": "alias", "history": list(history) + [cmd],
                     "sources": [OPMAP[c][1] for c in list(history) + [cmd]]},
                    expected, obs, size=len(history) * 100 +
                    OPNAMES.index(cmd))
                break
        if agg.n["steps"] % 3000 == 1:
            agg.sample({"ops": [OPMAP[c][1] for c in list(history) + [cmd]],
                        "variables": obs["vars"], "identical": obs["same"]},
                       3)


def _cont(v):
    return is_container(v)


def partition(ids):
    """canonical identity partition of the handles: list of index groups"""
    groups = {}
    for i, x in enumerate(ids):
        if x is not None:
            groups.setdefault(x, []).append(i)
    return sorted(g for g in groups.values())


def explore_alias(chunk):
    agg = core.Agg()
    ex = Aliases(chunk["ops"], chunk["firsts"])
    s = core.Session(secure=True, legacy=True)
    s.interp.interpret(SETUP, "setup")
    ex.explore(s, Heap(), [], chunk["depth"], agg)
    return agg


def replay(case, verbose=False):
    if case["kind"] == "literal":
        sx = core.Session(secure=True, legacy=True)
        o = sx.run(case["src"], "literal", fuel=30000)
        if verbose:
            print(case["src"], "->", o)
        return not (o[0] == "value" and o[1] == "list"
                    and literal_pair_equal(o[2]))
    if case["kind"] == "proto":
        sx = core.Session(secure=True, legacy=True)
        o = core.outcome_raw(lambda: sx.interp.interpret(case["src"], "p"))
        got = core.from_value(o[1]) if o[0] == "value" else core.show_raw(o)
        if verbose:
            print(case["src"], "->", got, "expected", case["_exp"])
        return got != case["_exp"]
    if case["kind"] == "form":
        a = explore_forms([(case["form"], case["args"][0], "thorough")])
        hit = [v for k, (sz, v) in a.viol.items()
               if v["case"]["args"] == case["args"]]
        if verbose:
            for v in hit:
                print(v)
        return bool(hit)
    if case["kind"] == "call":
        s = sess()
        fn = dict(s.funcs)[case["callee"]]
        args = [sweep.POOL[sweep.POOL_INDEX[a]][1](s) for a in case["args"]]
        before = [snapshot(a) for a in args]
        o = call_with(s, fn, args)
        after = [snapshot(a) for a in args]
        bname = base_name(case["callee"])
        bad = False
        for k, (b, a) in enumerate(zip(before, after)):
            if b != a and not (bname in MUTATORS and k == 0):
                bad = True
        if case.get("identity") and o[0] == "value":
            bad = bad or any(o[1] is a for a in args)
        if case.get("nested") and o[0] == "value":
            bad = bad or any(is_container(a) and not core.is_cyclic(a)
                             and contains_object(o[1], a) for a in args)
        if verbose:
            print(case, before, after, core.show_raw(o))
        return bad
    ex = Aliases(OPNAMES)

    def mk():
        s = core.Session(secure=True, legacy=True)
        s.interp.interpret(SETUP, "setup")
        return s
    out = ex.replay_fresh(mk, Heap, case["history"])
    bad = False
    for cmd, exp, obs in out:
        if verbose:
            print(OPMAP[cmd][1], "\n  expected", exp, "\n  observed", obs)
        bad = bad or any(obs[w] != exp[w] for w in ("resp", "vars", "same"))
    return bad


def main(tier, seed):
    t0 = time.time()
    s = sess()
    names = [n for n, _ in sweep.POOL]
    call_tasks = []
    for fname, fn in s.funcs:
        call_tasks.append((fname, None, tier))
        if sweep.nparams_of(fn) >= 2:
            for a in names:
                call_tasks.append((fname, a, tier))
    agg = core.pmap(explore_calls, core.chunked(call_tasks, core.NPROC * 6))
    from mc.props import c13
    form_tasks = [(f, a, tier) for f in c13.FORMS2 for a in names]
    agg.merge(core.pmap(explore_forms,
                        core.chunked(form_tasks, core.NPROC * 4)))
    jobs = []
    if tier == "quick":
        plans = [(OPNAMES, 2), (CORE_OPS, 3)]
    else:
        plans = [(OPNAMES, 3), (CORE_OPS, 4)]
    for ops, depth in plans:
        for first in ops:
            jobs.append({"ops": ops, "firsts": [first], "depth": depth})
    agg.merge(core.pmap(explore_alias, jobs))
    agg.merge(core.pmap(explore_literals, [[x] for x in LITERALS]))
    agg.merge(core.pmap(explore_protos, [{}]))
    agg.merge(core.pmap(explore_compound, [{}]))
    core.finish(
        PID, tier, seed, agg, t0,
        rule=(f"(a) {len(s.funcs)} functions x all argument tuples of arity "
              f"<= 3 from a {len(sweep.POOL)}-value pool with before/after "
              f"snapshots of every argument, and every non-assigning "
              f"syntactic form of the C13 catalogue x pool^holes with "
              f"snapshots of the operands; {len(LITERALS)} literals x "
              f"{len(CONTEXTS) - 1} re-evaluation contexts x every mutation "
              f"of an earlier result; (b) alias graph with "
              f"{len(HANDLES)} handles: all sequences of length <= "
              f"{plans[0][1]} over {len(OPNAMES)} operations and of length "
              f"<= {plans[1][1]} over {len(CORE_OPS)} core operations, one "
              f"fork per step, renderings and identity partition compared "
              f"with the heap model after every step"),
        exhaustive=True,
        assumptions=["pass-through functions (identity, if_null, list of a "
                     "list, set of a set, min/max/first/last, map_get) are "
                     "not required to copy", "streams are stateful by "
                     "nature and not snapshotted"],
        replay_fn=replay,
    )
