"""C03 Names resolve lexically and calls bind arguments as declared.

E3: bounded-exhaustive program generation compared with the reference
evaluator (mc/ref/refeval.py) on result / error value and the LOG trace:
(A) every parameter-list shape (plain / defaulted / rest, <= 3 + rest, five
default kinds) x every argument list of <= 3/4 arguments over positional,
named (every parameter name and an unknown one), spread lists and spread
maps, through plain calls, the pipeline form and method calls with the
member found at every depth of the prototype chain;
(B) every scope-shape program: nested function levels, each with every
sequence of <= 2/3 actions {def x, assign x, read x, call inner}, with and
without a global x; plus the discriminating families (lexical vs dynamic,
closures outliving their frame, def inside blocks, recursion, currying).
"""
import itertools
import time

from mc import core
from mc.ref import refeval as E
from mc.ref import harness as H

PID = "C03"


def L(v):
    return ("lit", v)


def V(n):
    return ("var", n)


def judge(agg, what, ast, sig=None):
    src = E.render(ast)
    m = E.Machine()
    ref = m.run(ast)
    agg.count("steps")
    got, logs = H.run_impl_value(src)
    if ref[0] == "unspec":
        agg.count("unspecified")
        agg.cls((what, "unspec"))
        if got[0] in ("host", "hang", "syn"):
            agg.violation({"part": what, "kind": got[0]},
                          {"src": src}, "value or language error",
                          list(got), size=len(src))
        return
    agg.cls((what, ref[0], got[0]))
    ok = got[0] == ref[0] and H.same(ref[1], got[1]) and H.same(m.log, logs)
    if not ok:
        s = {"part": what}
        s.update(sig or {})
        agg.violation(s, {"src": src, "_expected": [list(ref), m.log]},
                      [list(ref), m.log], [list(got), logs], size=len(src))
    if agg.n["steps"] % 4000 == 1:
        agg.sample({"program": src, "result": list(ref), "log": m.log}, 4)


# ---- A: argument binding ----------------------------------------------------
PNAMES = ["a", "b", "c"]


def param_shapes():
    """lists of (name, default-kind|None, is_rest)"""
    kinds = [None, "lit", "prev", "glob", "clos"]
    out = []
    for n in range(0, 4):
        for ks in itertools.product(kinds, repeat=n):
            if any(k == "prev" and i == 0 for i, k in enumerate(ks)):
                continue
            # keep the space tractable: at most one of glob/clos per list
            if sum(1 for k in ks if k in ("glob", "clos")) > 1:
                continue
            for rest in (False, True):
                ps = [(PNAMES[i], ks[i], False) for i in range(n)]
                if rest:
                    ps.append(("r...", None, True))
                out.append(ps)
    return out


def default_expr(i, kind):
    if kind is None:
        return None
    if kind == "lit":
        return L(100 + i)
    if kind == "prev":
        return ("bin", "+", V(PNAMES[i - 1]), L(1000))
    if kind == "glob":
        return V("G")
    return V("K")          # closure variable of the defining function


def arg_alphabet():
    """symbols of the argument-list alphabet as (tag, payload)"""
    syms = [("pos", None)]
    for nm in PNAMES + ["zz"]:
        syms.append(("named", nm))
    for n in (0, 1, 2):
        syms.append(("slist", n))
    syms += [("smap", ("a",)), ("smap", ("b",)), ("smap", ("a", "c")),
             # non-string keys are positional, in ascending key order
             ("smap", (2, 1))]
    return syms


def build_args(symseq):
    """concrete argument list with distinct recognisable values"""
    out = []
    v = [0]

    def nxt():
        v[0] += 1
        return v[0]
    for tag, p in symseq:
        if tag == "pos":
            out.append(("pos", L(nxt())))
        elif tag == "named":
            out.append(("named", p, L(nxt() * 10)))
        elif tag == "slist":
            out.append(("spread", ("list", [L(nxt() + 50)
                                            for _ in range(p)])))
        else:
            out.append(("spread", ("map", [(L(k), L(nxt() * 7))
                                           for k in p])))
    return out


def binding_program(params, args, form):
    ps = [(n, default_expr(i, k), r) for i, (n, k, r) in enumerate(params)]
    body = ("list", [V(n) for (n, _, _) in ps])
    # the function is made inside mk() so that K is a closure variable and
    # G is a global that the caller shadows locally
    fdef = ("def", "mk", ("fn", [], ("seq", [
        ("def", "K", L(7000)),
        ("fn", ps, body)])), True)
    prog = [("def", "G", L(9000)), fdef, ("def", "f", ("call", V("mk"), []))]
    if form == "call":
        call = ("call", V("f"), args)
    elif form == "pipe":
        call = ("pipe", L(77), V("f"), args)
    else:
        depth = int(form[-1])
        # object whose member m is found `depth` prototypes up
        prog.append(("def", "o0", ("obj", [("m", V("f"))])))
        for d in range(1, depth + 1):
            prog.append(("def", "o%d" % d,
                         ("obj", [("_proto_", V("o%d" % (d - 1)))])))
        call = ("mcall", V("o%d" % depth), "m", args)
    caller = ("def", "caller", ("fn", [], ("seq", [
        ("def", "G", L(-1)), ("def", "K", L(-2)), ("def", "a", L(-3)),
        call])), True)
    prog += [caller, ("call", V("caller"), [])]
    return ("seq", prog)


def explore_binding(chunk):
    agg = core.Agg()
    syms = arg_alphabet()
    for params in chunk["params"]:
        for n in range(0, chunk["maxargs"] + 1):
            for symseq in itertools.product(syms, repeat=n):
                # the int-keyed spread map rides on shorter lists only
                if n == chunk["maxargs"] and n > 2 and \
                        ("smap", (2, 1)) in symseq:
                    continue
                args = build_args(symseq)
                for form in chunk["forms"]:
                    judge(agg, "binding:" + form,
                          binding_program(params, args, form))
        agg.count("cases")
    return agg


def explore_members(chunk):
    """method call / member access with the member on the object, up the
    prototype chain, absent, or not a function"""
    agg = core.Agg()
    for depth in range(0, 4):
        for where in range(0, depth + 2):     # depth+1 = absent
            for kindm in ("fn", "value"):
                prog = [("def", "f", ("fn", [("self", None, False),
                                             ("x", L(5), False)],
                                      ("list", [("member", V("self"), "tag"),
                                                V("x")])), True)]
                member = V("f") if kindm == "fn" else L(42)
                for d in range(0, depth + 1):
                    ms = [("tag", L(d))]
                    if d == where:
                        ms.append(("m", member))
                    if d > 0:
                        ms.append(("_proto_", V("o%d" % (d - 1))))
                    prog.append(("def", "o%d" % d, ("obj", ms)))
                top = V("o%d" % depth)
                for args in ([], [("pos", L(1))], [("named", "x", L(2))],
                             [("pos", L(1)), ("pos", L(2))]):
                    judge(agg, "method", ("seq", prog + [
                        ("mcall", top, "m", args)]))
                judge(agg, "member", ("seq", prog + [
                    ("list", [("member", top, "m") if kindm == "value"
                              else ("member", top, "tag"),
                              ("member", top, "nope")])]))
        agg.count("cases")
    return agg


# ---- B: scope shapes --------------------------------------------------------
ACTIONS = ["D", "A", "R", "C", "X"]


def level_body(level, nlevels, plan):
    """statements of function f<level>: first the nested definition, then
    the planned actions"""
    stmts = []
    if level < nlevels:
        stmts.append(("def", "f%d" % (level + 1),
                      ("fn", [], ("seq", level_body(level + 1, nlevels,
                                                    plan))), True))
    for act in plan[level - 1]:
        if act == "D":
            stmts.append(("def", "x", L(level * 10)))
        elif act == "A":
            stmts.append(("assign", "x", ("bin", "+", V("x"), L(1))))
        elif act == "X":
            # destructuring assignment updates the enclosing binding too
            stmts.append(("dassign", ["x"],
                          ("list", [("bin", "+", V("x"), L(100))])))
        elif act == "S":
            # a destructuring def with fewer values than names binds the
            # remaining names (here x) in the current scope as well
            stmts.append(("ddef", ["y%d" % level, "x"],
                          ("list", [L(level * 10 + 5)])))
        elif act == "R":
            stmts.append(("log", ("list", [L(level), V("x")])))
        elif act == "C":
            if level < nlevels:
                stmts.append(("call", V("f%d" % (level + 1)), []))
            else:
                stmts.append(("log", L("leaf")))
    stmts.append(("log", L("end%d" % level)))
    return stmts


def scope_program(plan, glob):
    nlevels = len(plan)
    prog = []
    if glob:
        prog.append(("def", "x", L(1)))
    prog.append(("def", "f1", ("fn", [], ("seq", level_body(1, nlevels,
                                                            plan))), True))
    prog.append(("block", [("call", V("f1"), [])],
                 [(None, ("log", L("caught")))], []))
    # what the top level sees afterwards
    prog.append(("block", [("log", ("list", [L(0), V("x")]))],
                 [(None, ("log", L("no-x")))], []))
    return ("seq", prog)


def explore_scopes(chunk):
    agg = core.Agg()
    seqs = chunk["seqs"]
    inner = chunk["inner"]
    for first in chunk["firsts"]:
        rest_levels = chunk["nlevels"] - 1
        pools = [chunk.get("mid", seqs)] * max(0, rest_levels - 1) + \
            ([inner] if rest_levels >= 1 else [])
        for rest in itertools.product(*pools):
            plan = [first] + list(rest)
            for glob in (False, True):
                judge(agg, "scope", scope_program(plan, glob))
        agg.count("cases")
    return agg


def family_programs():
    progs = []
    # lexical vs dynamic
    for glob in (False, True):
        for hdef in (False, True):
            for gact in ("read", "assign", "def"):
                g_body = {"read": ("log", V("x")),
                          "assign": ("assign", "x", L(50)),
                          "def": ("seq", [("def", "x", L(60)),
                                          ("log", V("x"))])}[gact]
                p = []
                if glob:
                    p.append(("def", "x", L(1)))
                p.append(("def", "g", ("fn", [], g_body), True))
                hb = []
                if hdef:
                    hb.append(("def", "x", L(2)))
                hb += [("call", V("g"), []),
                       ("block", [("log", V("x"))],
                        [(None, ("log", L("h-no-x")))], [])]
                p.append(("def", "h", ("fn", [], ("seq", hb)), True))
                p.append(("block", [("call", V("h"), [])],
                          [(None, ("log", L("err-h")))], []))
                p.append(("block", [("log", V("x"))],
                          [(None, ("log", L("top-no-x")))], []))
                if glob:
                    p.append(("assign", "x", L(4)))
                    p.append(("block", [("call", V("g"), [])],
                              [(None, ("log", L("err-g")))], []))
                progs.append(("lexical", ("seq", p)))
    # closures outliving their frame: two counters, all call sequences
    mk = ("def", "mk", ("fn", [("start", None, False)], ("seq", [
        ("def", "c", V("start")),
        ("fn", [], ("seq", [("assign", "c", ("bin", "+", V("c"), L(1))),
                            ("log", V("c")), V("c")]))])), True)
    for n in range(1, 5):
        for seq in itertools.product(("k1", "k2"), repeat=n):
            p = [mk, ("def", "k1", ("call", V("mk"), [("pos", L(0))])),
                 ("def", "k2", ("call", V("mk"), [("pos", L(10))]))]
            p += [("call", V(k), []) for k in seq]
            progs.append(("counter", ("seq", p)))
    # mutation after capture
    progs.append(("capture", ("seq", [
        ("def", "v", L(1)),
        ("def", "get", ("fn", [], V("v")), True),
        ("log", ("call", V("get"), [])),
        ("assign", "v", L(2)),
        ("log", ("call", V("get"), [])),
        ("def", "v", L(3)),
        ("log", ("call", V("get"), []))])))
    # def inside do / if / loop bodies binds in the function scope
    for where in ("do", "if", "for", "while"):
        inner = ("def", "y", L(5))
        if where == "do":
            st = ("block", [inner, L(0)], [], [])
        elif where == "if":
            st = ("if", [(L(True), ("seq", [inner, L(0)]))], None)
        elif where == "for":
            st = ("for", ["i"], None, ("list", [L(1), L(2)]),
                  ("seq", [inner]))
        else:
            st = ("seq", [("def", "n", L(0)),
                          ("while", ("cmp", [V("n"), "<", L(2)]),
                           ("seq", [inner, ("assign", "n",
                                            ("bin", "+", V("n"), L(1)))]))])
        progs.append(("blockdef", ("seq", [
            ("def", "f", ("fn", [], ("seq", [st, ("log", V("y")),
                                             V("y")])), True),
            ("log", ("call", V("f"), [])),
            ("block", [("log", V("y"))], [(None, ("log", L("no-y")))],
             [])])))
    # recursion: fresh parameters and locals per activation
    progs.append(("recursion", ("seq", [
        ("def", "r", ("fn", [("n", None, False), ("acc", None, False)],
                      ("seq", [
                          ("if", [(("cmp", [V("n"), "==", L(0)]),
                                   ("return", V("acc")))], None),
                          ("def", "loc", ("bin", "*", V("n"), L(10))),
                          ("def", "res", ("call", V("r"), [
                              ("pos", ("bin", "-", V("n"), L(1))),
                              ("pos", ("bin", "+", V("acc"),
                                       ("list", [V("loc")])))])),
                          ("log", ("list", [V("n"), V("loc")])),
                          V("res")])), True),
        ("call", V("r"), [("pos", L(4)), ("pos", ("list", []))])])))
    progs.append(("recursion", ("seq", [
        ("def", "fact", ("fn", [("n", None, False)],
                         ("if", [(("cmp", [V("n"), "<=", L(1)]), L(1))],
                          ("bin", "*", V("n"), ("call", V("fact"), [
                              ("pos", ("bin", "-", V("n"), L(1)))])))),
         True),
        ("list", [("call", V("fact"), [("pos", L(k))])
                  for k in (0, 1, 5, 20, 25)])])))
    # curried / composed
    progs.append(("curry", ("seq", [
        ("def", "adder", ("fn", [("a", None, False)],
                        ("fn", [("b", None, False)],
                         ("fn", [("c", None, False)],
                          ("bin", "+", ("bin", "+", V("a"), V("b")),
                           V("c"))))), True),
        ("def", "a", L(100)), ("def", "b", L(200)),
        ("def", "p", ("call", V("adder"), [("pos", L(1))])),
        ("def", "q", ("call", V("p"), [("pos", L(2))])),
        ("list", [("call", V("q"), [("pos", L(3))]),
                  ("call", ("call", ("call", V("adder"), [("pos", L(4))]),
                            [("pos", L(5))]), [("pos", L(6))]),
                  ("call", V("q"), [("pos", L(30))])])])))
    progs.append(("curry", ("seq", [
        ("def", "compose", ("fn", [("f", None, False), ("g", None, False)],
                            ("fn", [("x", None, False)],
                             ("call", V("f"), [("pos", ("call", V("g"), [
                                 ("pos", V("x"))]))]))), True),
        ("def", "inc", ("fn", [("x", None, False)],
                        ("bin", "+", V("x"), L(1))), True),
        ("def", "dbl", ("fn", [("x", None, False)],
                        ("bin", "*", V("x"), L(2))), True),
        ("list", [("call", ("call", V("compose"),
                            [("pos", V("inc")), ("pos", V("dbl"))]),
                   [("pos", L(5))]),
                  ("call", ("call", V("compose"),
                            [("pos", V("dbl")), ("pos", V("inc"))]),
                   [("pos", L(5))]),
                  ("pipe", L(5), V("inc"), []),
                  ("pipe", ("pipe", L(5), V("inc"), []), V("dbl"), [])])])))
    # receiver expressions with effects are evaluated exactly once
    counter_obj = ("obj", [("n", L(0)),
                           ("inc", ("fn", [("self", None, False),
                                           ("k", L(1), False)],
                                    ("seq", [("log", ("list", [
                                        L("inc"), ("member", V("self"),
                                                   "n"), V("k")])),
                                        V("self")])))])
    progs.append(("receiver", ("seq", [
        ("def", "made", L(0)),
        ("def", "make", ("fn", [], ("seq", [
            ("assign", "made", ("bin", "+", V("made"), L(1))),
            ("log", ("list", [L("make"), V("made")])),
            ("obj", [("tag", V("made")),
                     ("show", ("fn", [("self", None, False),
                                      ("p", L("d"), False)],
                               ("list", [("member", V("self"), "tag"),
                                         V("p")])))])])), True),
        ("list", [("mcall", ("call", V("make"), []), "show", []),
                  ("mcall", ("call", V("make"), []), "show",
                   [("pos", L("x"))]),
                  V("made")])])))
    progs.append(("receiver", ("seq", [
        ("def", "o", counter_obj),
        ("def", "pick", ("fn", [], ("seq", [("log", L("pick")), V("o")])),
         True),
        ("mcall", ("mcall", ("mcall", ("call", V("pick"), []), "inc", []),
                   "inc", [("pos", L(10))]), "inc", [("named", "k", L(5))]),
        ("log", L("done"))])))
    progs.append(("receiver", ("seq", [
        ("def", "objs", ("list", [("obj", [("name", L("A")),
                                          ("who", ("fn", [("self", None,
                                                           False)],
                                                   ("member", V("self"),
                                                    "name")))]),
                                  ("obj", [("name", L("B")),
                                           ("who", ("fn", [("self", None,
                                                            False)],
                                                    ("member", V("self"),
                                                     "name")))])])),
        ("def", "i", L(-1)),
        ("def", "nxt", ("fn", [], ("seq", [
            ("assign", "i", ("bin", "+", V("i"), L(1))),
            ("index", V("objs"), V("i"))])), True),
        ("list", [("mcall", ("call", V("nxt"), []), "who", []),
                  ("mcall", ("call", V("nxt"), []), "who", []), V("i")])])))
    # the piped value and arguments are evaluated once, left to right
    progs.append(("receiver", ("seq", [
        ("def", "f", ("fn", [("a", None, False), ("b", None, False)],
                      ("list", [V("a"), V("b")])), True),
        ("pipe", ("seq", [("log", L("lhs")), L(1)]), V("f"),
         [("pos", ("seq", [("log", L("arg")), L(2)]))])])))
    # a negative literal as the piped value is the first argument as it
    # stands (int and decimal alike)
    progs.append(("receiver", ("seq", [
        ("def", "f", ("fn", [("a", None, False), ("b", None, False)],
                      ("list", [V("a"), V("b")])), True),
        ("list", [("pipe", ("raw", "-2.5", -2.5), V("f"), [("pos", L(1))]),
                  ("pipe", ("raw", "-3", -3), V("f"), [("pos", L(1))]),
                  ("pipe", ("pipe", ("raw", "-0.5", -0.5), V("f"),
                            [("pos", L(1))]), V("f"), [("pos", L(2))])])])))
    # pipelines into member paths: x !> A->B->f(a) means (A->B->f)(x, a);
    # every level carries a same-named member with another meaning
    def lvl(tag, inner=None):
        ms = [("f", ("fn", [("a", None, False), ("b", L("d" + tag), False)],
                     ("list", [L(tag), V("a"), V("b")]))),
              ("g", ("fn", [("a", None, False), ("r...", None, True)],
                     ("list", [L("g" + tag), V("a"), V("r...")])))]
        if inner is not None:
            ms.append(("inner", inner))
        return ("obj", ms)
    tree = lvl("L0", lvl("L1", lvl("L2", lvl("L3"))))
    for depth in range(0, 4):
        tgt = V("root")
        for _ in range(depth):
            tgt = ("member", tgt, "inner")
        for mname in ("f", "g"):
            for args in ([], [("pos", L(7))], [("named", "b", L(8))],
                         [("pos", L(7)), ("pos", L(9))]):
                if mname == "f" and len(args) == 2:
                    continue
                if mname == "g" and args and args[0][0] == "named":
                    continue
                progs.append(("pipe-path", ("seq", [
                    ("def", "root", tree),
                    ("def", "direct", ("member", tgt, mname)),
                    ("list", [("pipe", L(3), ("member", tgt, mname), args),
                              ("call", V("direct"),
                               [("pos", L(3))] + args)])])))
    # a pipeline into a function literal and chained member pipelines
    progs.append(("pipe-path", ("seq", [
        ("def", "root", tree),
        ("pipe", ("pipe", L(1), ("member", ("member", V("root"), "inner"),
                                 "f"), []),
         ("member", ("member", ("member", V("root"), "inner"), "inner"),
          "g"), [("pos", L(2))])])))
    progs.append(("pipe-path", ("pipe", L(4),
                                ("fn", [("x", None, False),
                                        ("y", L(2), False)],
                                 ("list", [V("x"), V("y")])), [])))
    # defaults are evaluated at every call: a collection-literal default
    # mutated in the body starts fresh each time and is not shared with
    # earlier results
    for lit, grow in (
            (("list", []), lambda acc, x: ("call", V("append"),
                                           [("pos", acc), ("pos", x)])),
            (("list", [L(0)]), lambda acc, x: ("call", V("append"),
                                               [("pos", acc), ("pos", x)])),
            (("map", []), lambda acc, x: ("call", V("put"),
                                          [("pos", acc), ("pos", x),
                                           ("pos", L(1))])),
            (("set", []), lambda acc, x: ("call", V("append"),
                                          [("pos", acc), ("pos", x)]))):
        for calls in ([1, 2], [1, 2, 3], [1, None, 2], [None, 1, 2]):
            body = ("seq", [grow(V("acc"), V("x")), V("acc")])
            cl = []
            for c in calls:
                if c is None:
                    cl.append(("call", V("collect"),
                               [("pos", L(9)), ("pos", ("list", [L(5)])
                                                if lit[0] == "list" else lit)]))
                else:
                    cl.append(("call", V("collect"), [("pos", L(c))]))
            progs.append(("default-fresh", ("seq", [
                ("def", "collect", ("fn", [("x", None, False),
                                           ("acc", lit, False)], body), True),
                ("def", "r", ("list", cl)),
                V("r")])))
    # the same through a closure factory and a method
    progs.append(("default-fresh", ("seq", [
        ("def", "mk", ("fn", [], ("fn", [("x", None, False),
                                         ("acc", ("list", []), False)],
                                  ("seq", [("call", V("append"),
                                            [("pos", V("acc")),
                                             ("pos", V("x"))]), V("acc")]))),
         True),
        ("def", "k", ("call", V("mk"), [])),
        ("list", [("call", V("k"), [("pos", L(1))]),
                  ("call", V("k"), [("pos", L(2))]),
                  ("call", ("call", V("mk"), []), [("pos", L(3))])])])))
    progs.append(("default-fresh", ("seq", [
        ("def", "o", ("obj", [("n", L(0)),
                              ("tick", ("fn", [("self", None, False),
                                               ("st", ("obj", [("n", L(0))]),
                                                False)],
                                        ("seq", [
                                            ("log", ("member", V("st"), "n")),
                                            V("st")])))])),
        ("list", [("member", ("mcall", V("o"), "tick", []), "n"),
                  ("member", ("mcall", V("o"), "tick", []), "n")])])))
    # a loop left by return takes its loop variable with it: a closure
    # created before the loop still sees the outer binding afterwards
    for exitk in ("return", "break", "none"):
        for itk in (("list", [L(1), L(2), L(3)]), ("set", [L(1), L(2), L(3)]),
                    L("abc"),
                    ("map", [(L(1), L("p")), (L(2), L("q"))])):
            what = "keys" if itk[0] == "map" else None
            hit = L("b") if itk[0] == "lit" else L(2)
            if exitk == "return":
                body = ("if", [(("cmp", [V("x"), "==", hit]),
                                ("return", V("g")))], None)
            elif exitk == "break":
                body = ("if", [(("cmp", [V("x"), "==", hit]),
                                ("break",))], None)
            else:
                body = ("log", V("x"))
            progs.append(("loopvar", ("seq", [
                ("def", "x", L("outer")),
                ("def", "mk", ("fn", [], ("seq", [
                    ("def", "g", ("fn", [], V("x"))),
                    ("for", ["x"], what, itk, ("seq", [body])),
                    V("g")])), True),
                ("list", [("call", ("call", V("mk"), []), []), V("x")])])))
    # the variables of a comprehension are its own: a function of the
    # enclosing scope that reads a same-named variable keeps reading the
    # enclosing one, which is unchanged (and still the only one) afterwards
    for ckind in ("list", "set", "map"):
        for mode in ("single", "product", "parallel"):
            for shadow in (0, 1):
                if mode == "single" and shadow == 1:
                    continue
                if ckind == "map" and mode != "single":
                    continue      # map comprehensions have one source
                names = ["c", "d"]
                names[shadow] = "scale"
                cl = [(names[0], None, ("list", [L(1), L(2)]))]
                arg = V(names[0])
                if mode != "single":
                    cl.append((names[1], None, ("list", [L(10), L(20)])))
                    arg = ("bin", "+", V(names[0]), V(names[1]))
                val = ("call", V("boost"), [("pos", arg)])
                if ckind == "map":
                    val = (arg, val)
                progs.append(("comprehension-scope", ("seq", [
                    ("def", "scale", L(100)),
                    ("def", "boost", ("fn", [("v", None, False)],
                                      ("bin", "+", V("v"), V("scale"))),
                     True),
                    ("def", "wrap", ("fn", [], ("seq", [
                        ("def", "r", ("comp", ckind, val, cl, mode, None)),
                        ("list", [V("r"), V("scale")])])), True),
                    ("list", [("comp", ckind, val, cl, mode, None),
                              V("scale"), ("call", V("wrap"), []),
                              V("scale")])])))
    # every construction runs the constructor on the new instance: two
    # instances of one class keep their own fields
    progs.append(("class-instances", ("raw", (
        "do def class Counter do "
        "def _init_(self, n, step = 1) do self->n = n; self->step = step; "
        "end; def inc(self) do self->n += self->step; self->n end end; "
        "def a = new(Counter, 10); def b = new(Counter, 100, 5); "
        "[a->inc(), b->inc(), a->inc(), a->step, b->step, 'n' in Counter, "
        "a->n, b->n] end"), [11, 105, 12, 1, 5, False, 12, 105])))
    # a built-in name defined by the program after a function that uses it
    # was first called: the function sees the new binding from then on
    progs.append(("rebind-builtin", ("seq", [
        ("def", "size", ("fn", [("l", None, False)],
                         ("call", V("length"), [("pos", V("l"))])), True),
        ("def", "r1", ("call", V("size"), [("pos", ("list", [L(1), L(2)]))])),
        ("def", "length", ("fn", [("o", None, False)], L(42)), True),
        ("list", [V("r1"),
                  ("call", V("size"), [("pos", ("list", [L(1), L(2)]))])])])))
    progs.append(("rebind-builtin", ("seq", [
        ("def", "twice", ("fn", [("n", None, False)],
                          ("call", V("string"), [("pos", V("n"))])), True),
        ("def", "out", ("list", [])),
        ("for", ["i"], None, ("list", [L(1), L(2), L(3)]), ("seq", [
            ("call", V("append"), [("pos", V("out")),
                                   ("pos", ("call", V("twice"),
                                            [("pos", V("i"))]))]),
            ("if", [(("cmp", [V("i"), "==", L(1)]),
                     ("def", "string", ("fn", [("q", None, False)],
                                        L("shadow")), True))], None)])),
        V("out")])))
    # functions inside an object literal see the variables of the call of
    # the enclosing function that created *this* object
    progs.append(("object-factory", ("seq", [
        ("def", "make", ("fn", [("step", None, False)], ("obj", [
            ("get", ("fn", [("self", None, False)], V("step"))),
            ("add", ("fn", [("self", None, False), ("n", None, False)],
                     ("bin", "+", V("n"), V("step"))))])), True),
        ("def", "a", ("call", V("make"), [("pos", L(1))])),
        ("def", "b", ("call", V("make"), [("pos", L(10))])),
        ("list", [("mcall", V("a"), "get", []), ("mcall", V("b"), "get", []),
                  ("mcall", V("a"), "add", [("pos", L(5))]),
                  ("mcall", V("b"), "add", [("pos", L(5))]),
                  ("mcall", ("call", V("make"), [("pos", L(100))]),
                   "get", [])])])))
    progs.append(("object-factory", ("seq", [
        ("def", "outer", ("fn", [("k", None, False)], ("seq", [
            ("def", "local", ("bin", "*", V("k"), L(2))),
            ("list", [("obj", [("f", ("fn", [("self", None, False)],
                                      ("list", [V("k"), V("local")])))]),
                      ("fn", [], V("local"))])])), True),
        ("def", "p", ("call", V("outer"), [("pos", L(1))])),
        ("def", "q", ("call", V("outer"), [("pos", L(7))])),
        ("list", [("mcall", ("index", V("p"), L(0)), "f", []),
                  ("mcall", ("index", V("q"), L(0)), "f", []),
                  ("call", ("index", V("p"), L(1)), []),
                  ("call", ("index", V("q"), L(1)), [])])])))
    # parameters shadow globals; assignment to a parameter stays local
    progs.append(("params", ("seq", [
        ("def", "x", L(1)),
        ("def", "f", ("fn", [("x", None, False)],
                      ("seq", [("assign", "x", ("bin", "+", V("x"), L(1))),
                               V("x")])), True),
        ("list", [("call", V("f"), [("pos", L(10))]), V("x"),
                  ("call", V("f"), [("pos", V("x"))]), V("x")])])))
    # assignment to an undefined name is an error and creates no binding
    progs.append(("undefined", ("seq", [
        ("block", [("assign", "nope", L(1))],
         [(None, ("log", L("assign-failed")))], []),
        ("block", [("log", V("nope"))], [(None, ("log", L("still-none")))],
         [])])))
    return progs


# ---- natives: documented signature and calls through callbacks ---------------
NATIVE_CALLS = [
    # (program, expected rendering) - natives that call back into user
    # functions bind the callback's parameters as declared, too
    ("sorted([3, 1, 2], cmp = fn(a, b, flip = 1) flip * compare(a, b))",
     "[1, 2, 3]"),
    ("sorted([3, 1, 2], cmp = fn(a, b, flip = -1) flip * compare(a, b))",
     "[3, 2, 1]"),
    ("sorted([[2, 'b'], [1, 'a']], key = fn(p, idx = 0) p[idx])",
     "[[1, 'a'], [2, 'b']]"),
    ("sorted(['bb', 'a', 'ccc'], fn(x, y) compare(length(x), length(y)))",
     "['a', 'bb', 'ccc']"),
    ("do def seen = []; sorted([2, 1], cmp = fn(a, b = 'B', c = 'C') do "
     "append(seen, [b != 'B', c]); compare(a, b) end); seen[0] end",
     "[TRUE, 'C']"),
    ("find([[1, 'x'], [2, 'y']], 2, fn(p) p[0])", "1"),
    ("find([[1, 'x'], [2, 'y'], [2, 'z']], 2, fn(p) p[0], 2)", "2"),
    ("find_last([[1, 'x'], [2, 'y'], [2, 'z']], 2, fn(p) p[0])", "2"),
    ("find_last([[1, 'x'], [2, 'y'], [2, 'z']], 2, fn(p) p[0], 1)", "1"),
    ("[[1, 'x'], [2, 'y']] !> find_last(1, fn(p) p[0])", "0"),
    ("find_last([1, 2, 1, 2], 2, start = 2)", "1"),
    ("find_last([[1], [2]], 2, start = 1, key = fn(p) p[0])", "1"),
    ("do find_last([1, 2, 1, 2], 2, 2) catch all 'rejected' end",
     "'rejected'"),
    ("do sorted([2, 1], bogus = 1) catch all 'rejected' end", "'rejected'"),
    ("do length([1], [2]) catch all 'rejected' end", "'rejected'"),
    ("do length(obj = [1, 2]) end", "2"),
    ("do length(nope = [1, 2]) catch all 'rejected' end", "'rejected'"),
    ("substr('abcdef', 2, endidx = 4)", "'cd'"),
    ("substr(startidx = 1, str = 'abc')", "'bc'"),
    ("do def r = []; process_lines(['a', 'b'], fn(line, tag = 't') "
     "append(r, line + tag)); r end", "['at', 'bt']"),
]


def explore_natives(chunk):
    agg = core.Agg()
    s = core.Session(secure=True, legacy=True)
    for src, want in NATIVE_CALLS:
        s.reset()
        o = s.run(src, "native", fuel=30000)
        agg.count("steps")
        agg.cls(("native-call", o[0]))
        if not (o[0] == "value" and o[2] == want):
            agg.violation({"part": "native-callback"},
                          {"src": src, "native": True, "want": want},
                          want, list(o), size=len(src))
    # the documented signature (first lines of the info text) and the
    # declared parameter list name the parameters in the same order
    from mc import sweep
    import re
    ss = sweep.SweepSession(legacy=True)
    for name, fn in ss.funcs:
        info = getattr(fn, "info", None)
        if not info:
            continue
        try:
            act = list(fn.getArgNames())
        except Exception:
            continue
        base = name.split("->")[-1]
        for line in str(info).strip().splitlines()[:4]:
            m = re.match(r"^%s\((.*)\)\s*$" % re.escape(base), line.strip())
            if not m:
                continue
            doc = [p.strip().split("=")[0].strip().rstrip(".")
                   for p in m.group(1).split(",") if p.strip()]
            common = [d for d in doc if d in act]
            agg.count("steps")
            if common != [a for a in act if a in common]:
                agg.violation(
                    {"part": "declared-order", "fn": base},
                    {"declared": True, "fn": name, "doc": doc},
                    "parameters in the documented order " + str(doc),
                    act, size=len(base))
    agg.count("cases")
    return agg


def explore_families(chunk):
    agg = core.Agg()
    for what, ast in chunk["programs"]:
        judge(agg, what, ast)
        agg.count("cases")
    return agg


def replay(case, verbose=False):
    if case.get("native"):
        s = core.Session(secure=True, legacy=True)
        o = s.run(case["src"], "native", fuel=30000)
        if verbose:
            print(case["src"], "->", o, "expected", case["want"])
        return not (o[0] == "value" and o[2] == case["want"])
    if case.get("declared"):
        a = explore_natives({})
        hit = [v for k, (sz, v) in a.viol.items()
               if v["case"].get("fn") == case["fn"]]
        if verbose:
            print(hit)
        return bool(hit)
    got, logs = H.run_impl_value(case["src"])
    if verbose:
        print(case["src"])
        print("observed:", got, logs)
        print("expected:", case.get("_expected"))
    exp = case.get("_expected")
    if exp is None:
        return got[0] in ("host", "hang", "syn")
    from mc.props.c02 import _t
    return not (got[0] == exp[0][0] and H.same(_t(exp[0][1]), got[1])
                and H.same(_t(exp[1]), logs))


def main(tier, seed):
    t0 = time.time()
    shapes = param_shapes()
    maxargs = 3 if tier == "quick" else 4
    jobs = []
    simple = [p for p in shapes
              if not any(k in ("glob", "clos") for _, k, _ in p)]
    scoped = [p for p in shapes if p not in simple]
    for c in core.chunked(simple, core.NPROC * 4):
        jobs.append({"params": c, "maxargs": maxargs, "forms": ["call"]})
    for c in core.chunked(scoped, core.NPROC * 4):
        jobs.append({"params": c, "maxargs": maxargs - 1
                     if tier == "quick" else maxargs, "forms": ["call"]})
    # other call forms on a smaller argument bound
    for c in core.chunked(shapes, core.NPROC * 2):
        jobs.append({"params": c, "maxargs": maxargs - 1,
                     "forms": ["pipe", "method0", "method2"]})
    agg = core.pmap(explore_binding, jobs)
    agg.merge(core.pmap(explore_members, [{}]))
    maxact = 2 if tier == "quick" else 3
    seqs = [list(t) for n in range(maxact + 1)
            for t in itertools.product(ACTIONS, repeat=n)]
    inner = [list(t) for n in range(3)
             for t in itertools.product(ACTIONS[:3], repeat=n)]
    inner += [["X"], ["X", "R"], ["R", "X"], ["D", "X"], ["A", "X"]]
    short = [["S", "R"], ["S", "A", "R"], ["S", "C", "R"]]
    inner += short
    seqs += short
    # quick: the destructuring assignment appears on the first and on the
    # innermost level only
    mid = seqs if tier == "thorough" else [q for q in seqs if "X" not in q]
    sjobs = []
    for nlevels in (1, 2, 3):
        for c in core.chunked(seqs, core.NPROC):
            sjobs.append({"firsts": c, "seqs": seqs, "inner": inner,
                          "mid": mid, "nlevels": nlevels})
    agg.merge(core.pmap(explore_scopes, sjobs))
    agg.merge(core.pmap(explore_natives, [{}]))
    fam = family_programs()
    agg.merge(core.pmap(explore_families, [{"programs": c} for c in
                                           core.chunked(fam, core.NPROC)]))
    core.finish(
        PID, tier, seed, agg, t0,
        rule=(f"{len(shapes)} parameter-list shapes (<= 3 parameters + "
              f"rest; defaults: none, literal, earlier parameter, global "
              f"shadowed in the caller, closure variable) x all argument "
              f"lists of <= {maxargs} arguments over a 12-symbol alphabet "
              f"(plain call; pipeline and method calls at prototype depth "
              f"0 and 2 with <= {maxargs - 1}); member lookup at every "
              f"depth <= 3; scope programs: 1-3 nested levels x all action "
              f"sequences of length <= {maxact} over {ACTIONS} (innermost "
              f"<= 2) x global x present/absent; {len(fam)} programs of the "
              f"discriminating families"),
        exhaustive=True,
        assumptions=["loop variables are not read after their loop; "
                     "named arguments are not repeated; spread of sets and "
                     "of maps with non-string keys belongs to C12"],
        replay_fn=replay,
    )
