"""C09 Secure mode denies file, process and script-loading access to every
program.

E1 + E5 under an owned OS seam.  The seam (sys.addaudithook + wrappers for
the non-audited stat/exists entry points) records - and blocks - every file,
directory and process access that is not the interpreter reading a module
source for `require`.  Enumerated: every native name the binder knows x
{no alias, alias} x binding contexts, every syntactic way of defining the
secure-mode flag followed by the binding of every OS-touching native, in both
base environments.  After every program a breadth-first search over the real
environments / closures / module caches / containers collects every reachable
function value; every function class not swept before is invoked with EVERY
argument tuple (arity <= 2/3) from a path/command pool.  The oracle is
behavioural: zero disallowed seam events, canary directory unchanged,
OS-touching names undefined, flag still TRUE.
"""
import ast
import itertools
import os
import sys
import time

from mc import core

PID = "C09"

OS_NATIVES = ["execute", "file_input", "file_copy", "file_delete",
              "file_exists", "file_info", "file_move", "file_output",
              "list_dir", "make_dir"]
OS_NAMES = OS_NATIVES + ["run", "read_file"]

EVENTS = []
REC = {"on": False, "roots": []}
WATCHED = ("open", "os.listdir", "os.scandir", "os.mkdir", "os.remove",
           "os.rename", "os.rmdir", "os.chdir", "os.chmod", "os.chown",
           "os.link", "os.symlink", "os.truncate", "os.utime",
           "os.system", "os.exec", "os.posix_spawn", "os.spawn",
           "os.startfile", "subprocess.Popen", "shutil.copyfile",
           "shutil.copymode", "shutil.copystat", "shutil.copytree",
           "shutil.move", "shutil.rmtree", "shutil.chown",
           "shutil.make_archive", "shutil.unpack_archive", "os.walk",
           "glob.glob", "tempfile.mkstemp", "tempfile.mkdtemp",
           "socket.connect", "socket.bind", "urllib.Request",
           "os.putenv", "os.unsetenv", "os.kill", "pty.spawn")


class Blocked(Exception):
    pass


def _stack_info():
    f = sys._getframe(2)
    in_require = False
    in_import = False
    site = "?"
    while f is not None:
        fn = f.f_code.co_filename
        if "importlib" in fn and "_bootstrap" in fn:
            in_import = True
        if fn.startswith(core.SRC):
            if site == "?":
                site = os.path.basename(fn) + ":" + f.f_code.co_name
            slf = f.f_locals.get("self")
            if f.f_code.co_name == "evaluate" and \
                    type(slf).__name__ == "NodeRequire":
                in_require = True
        f = f.f_back
    return in_require, in_import, site


def _allowed_path(p):
    try:
        p = os.fspath(p)
    except TypeError:
        return False
    if isinstance(p, bytes):
        p = p.decode("utf-8", "replace")
    p = os.path.abspath(p)
    for root in REC["roots"]:
        if p == root or p.startswith(root + os.sep):
            return p.endswith(".ckl") or p == root
    return False


def _note(event, args):
    in_require, in_import, site = _stack_info()
    if in_import:
        return False
    path = args[0] if args else None
    if in_require and event in ("open", "os.stat", "os.path.exists") and \
            _allowed_path(path):
        mode = args[1] if event == "open" and len(args) > 1 else "r"
        if event != "open" or mode is None or "w" not in str(mode) and \
                "a" not in str(mode) and "+" not in str(mode):
            return False
    EVENTS.append((event, repr(args)[:120], site))
    return True


def _hook(event, args):
    if not REC["on"]:
        return
    if event in WATCHED or event.startswith(("subprocess.", "shutil.")):
        if _note(event, args):
            raise Blocked(f"verif seam blocked {event}")


_installed = [False]


def install_seam():
    if _installed[0]:
        return
    _installed[0] = True
    import _strptime  # noqa: F401  (lazy import inside datetime.strptime)
    import json  # noqa: F401
    sys.addaudithook(_hook)
    for name in ("stat", "lstat"):
        orig = getattr(os, name)

        def w(path, *a, _o=orig, _n="os." + name, **kw):
            if REC["on"] and _note("os.stat", (path,)):
                raise Blocked("verif seam blocked " + _n)
            return _o(path, *a, **kw)
        setattr(os, name, w)
    for name in ("exists", "isdir", "isfile", "lexists", "getsize",
                 "getmtime"):
        orig = getattr(os.path, name)

        def w2(path, _o=orig, _n="os.path." + name):
            if REC["on"] and _note("os.path.exists", (path,)):
                raise Blocked("verif seam blocked " + _n)
            return _o(path)
        setattr(os.path, name, w2)


def canary_dir():
    d = os.path.join(core.SCRATCH_HOME, "canary%d" % os.getpid())
    if not os.path.isdir(d):
        os.makedirs(os.path.join(d, "sub"))
        with open(os.path.join(d, "file.txt"), "w") as f:
            f.write("canary\n")
        with open(os.path.join(d, "sub", "inner.txt"), "w") as f:
            f.write("inner\n")
        with open(os.path.join(d, "script.ckl"), "w") as f:
            f.write("def pwned = 1;\n")
        with open(os.path.join(d, "tool.sh"), "w") as f:
            f.write("#!/bin/sh\ntouch pwned\n")
        os.chmod(os.path.join(d, "tool.sh"), 0o755)
    return d


def canary_state(d):
    out = []
    for root, dirs, files in os.walk(d):
        for n in sorted(dirs + files):
            p = os.path.join(root, n)
            st = os.stat(p)
            out.append((os.path.relpath(p, d), st.st_size,
                        open(p).read() if os.path.isfile(p) else None))
    return sorted(out)


MODULES = {
    "Attack1": ("bind_native('file_exists'); bind_native('file_output', 'fo');\n"
                "def probe(x) file_exists(x);\n"
                "def flag() checkerlang_secure_mode;\n"),
    "Attack2": ("def checkerlang_secure_mode = FALSE;\n"
                "bind_native('file_delete'); bind_native('list_dir');\n"
                "bind_native('execute', 'ex');\n"
                "def flag() checkerlang_secure_mode;\n"),
    "Probe": "def flag() checkerlang_secure_mode;\n",
}


def write_modules():
    myhome = os.path.join(core.SCRATCH_HOME, "w%d" % os.getpid())
    os.environ["HOME"] = myhome
    d = os.path.join(myhome, ".ckl", "modules")
    os.makedirs(d, exist_ok=True)
    for name, src in MODULES.items():
        with open(os.path.join(d, name + ".ckl"), "w") as f:
            f.write(src)
    REC["roots"] = [os.path.join(core.SRC, "ckl", "modules"), d]


def native_names():
    src = open(os.path.join(core.SRC, "ckl", "functions.py")).read()
    t = ast.parse(src)
    names = []
    for n in ast.walk(t):
        if isinstance(n, ast.FunctionDef) and n.name == "bind_native":
            for c in ast.walk(n):
                if isinstance(c, ast.Compare) and \
                        isinstance(c.left, ast.Name) and \
                        c.left.id == "native":
                    for k in c.comparators:
                        if isinstance(k, ast.Constant) and \
                                isinstance(k.value, str):
                            names.append(k.value)
    return sorted(set(names) | set(KNOWN_NATIVES))


# the native names at the time the check was written: used in addition to
# the names extracted from the binder's source, so that a refactoring of the
# binder cannot make the enumeration vacuous
KNOWN_NATIVES = """acos add append asin atan atan2 bind_native bit_and bit_or
bit_not bit_xor bit_rotate_left bit_rotate_right bit_shift_left
bit_shift_right body boolean ceiling chr close compare contains cos date
decimal delete_at div ends_with equals escape_pattern eval execute exp
file_input file_copy file_delete file_exists file_info file_move file_output
find find_last floor format_date get_env get_output_string greater
greater_equals identity if_empty if_null if_null_or_empty info insert_at int
is_empty is_not_empty is_not_null is_null length less less_equals list
list_dir log lower ls make_dir map matches mod mul not_equals object ord
parse parse_date parse_json pattern pow print println process_lines put
random range read read_all readln remove round s set set_seed sin sorted
split split2 sqrt str_input starts_with str_output string sub sublist substr
sum tan timestamp trim type upper zip zip_map E PI PS LS FS OS_NAME
OS_VERSION OS_ARCH run""".split()


FLAG = "checkerlang_secure_mode"


def bind_call(n, alias):
    return f"bind_native('{n}', '{alias}')" if alias else \
        f"bind_native('{n}')"


def contexts(n, alias):
    b = bind_call(n, alias)
    return {
        "top": b,
        "function": f"def go() do {b}; NULL end; go(); {b}",
        "eval": f"eval(\"{b}\")",
        "param": f"def go({FLAG}) do {b}; NULL end; go(FALSE); {b}",
        "def-flag": f"def {FLAG} = FALSE; {b}",
        "destr-flag": f"def [{FLAG}] = [FALSE]; {b}",
        "for-flag": f"for {FLAG} in [FALSE] do {b}; end; {b}",
        "comp-flag": f"[eval(\"{b}\") for {FLAG} in [FALSE]]; {b}",
        "object": f"def o = <*{FLAG} = FALSE, m(self) do {b}; NULL end*>; "
                  f"o->m(); {b}",
        "named-arg": f"def go(x, {FLAG} = FALSE) do {b}; NULL end; "
                     f"go(1, {FLAG} = FALSE); {b}",
        "lambda": f"(fn({FLAG}) do {b}; NULL end)(FALSE); {b}",
        "catch": f"do error FALSE catch all do def {FLAG} = FALSE; {b}; "
                 f"end end; {b}",
    }


FLAG_PROGRAMS = [
    f"{FLAG} = FALSE",
    f"[{FLAG}] = [FALSE]",
    f"{FLAG} += 1",
    f"{FLAG} -= 1",
    # destructuring with several targets, the flag in either position,
    # right-hand sides of every length
    f"def a = 1; [a, {FLAG}] = [1, FALSE]",
    f"def a = 1; [{FLAG}, a] = [FALSE, 1]",
    f"def a = 1; [a, {FLAG}] = [1]",
    f"def a = 1; def b = 2; [a, b, {FLAG}] = [1, 2, FALSE]",
    f"def a = 1; def b = 2; [a, {FLAG}, b] = [1, FALSE, 2]",
    f"def a = 1; [a, {FLAG}] = <<a => 1, {FLAG} => FALSE>>",
    f"def a = 1; [a, {FLAG}] = <<<1, FALSE>>>",
    f"def [a, {FLAG}] = [1, FALSE]; [a, {FLAG}] = [1, FALSE]",
    f"for [a, {FLAG}] in [[1, FALSE]] do require OS unqualified end",
    f"for {FLAG} in [FALSE] do require OS unqualified; require IO unqualified end",
    f"[x for {FLAG} in [FALSE]]",
    f"def {FLAG} = FALSE; {FLAG} = FALSE",
    f"eval('{FLAG} = FALSE')",
    f"eval(parse('{FLAG} = FALSE'))",
    f"eval('def {FLAG} = FALSE')",
    f"require Probe as {FLAG}",
    f"require Probe import [flag as {FLAG}]",
    "require Attack1; require Attack2",
    "require Attack2 unqualified; require Attack1 unqualified",
    f"def e = ls(); put(<<<>>>, '{FLAG}', FALSE)",
    f"def {FLAG} = FALSE; require IO; require OS",
    f"def {FLAG} = FALSE; require IO unqualified; require OS unqualified",
    f"def {FLAG} = 0; def f() do def {FLAG} = FALSE; require OS; OS end; f()",
    f"do def {FLAG} = FALSE; end",
    f"def class C do def {FLAG} = FALSE end",
    f"<<<'{FLAG}' => FALSE>>> !> identity()",
    f"def g({FLAG}...) {FLAG}...; g(FALSE)",
]


def compound_flag_programs(tier):
    """one- and two-step compound assignments to the flag (a single step on
    a boolean usually fails, a sequence may change its kind step by step)"""
    ops = ["+=", "-=", "*=", "/=", "%="]
    vals = ["''", "0", "1", "FALSE", "NULL", "[1]", "'x'", "0.0"]
    one = [f"{FLAG} {o} {v}" for o in ops for v in vals]
    if tier == "quick":
        ops2, vals2 = ["+=", "*=", "-="], ["''", "0", "NULL", "FALSE"]
    else:
        ops2, vals2 = ops, vals
    steps = [f"{FLAG} {o} {v}" for o in ops2 for v in vals2]
    two = [f"do {a} catch all NULL end; do {b} catch all NULL end"
           for a in steps for b in steps]
    return one + two


def path_pool(d):
    V = core.ckl.values
    S = V.ValueString
    return [
        ("file", lambda: S(os.path.join(d, "file.txt"))),
        ("dir", lambda: S(os.path.join(d, "sub"))),
        ("new", lambda: S(os.path.join(d, "created_by_attack"))),
        ("passwd", lambda: S("/etc/passwd")),
        # a callback, for functions that take one before they touch a path
        ("callback", lambda: core.ckl.parser.parse_script(
            "fn(x) x", "cb").evaluate(
                core.ckl.functions.get_none_environment())),
        ("dot", lambda: S(".")),
        ("sh", lambda: S("sh")),
        ("script", lambda: S(os.path.join(d, "script.ckl"))),
        ("argv", lambda: core.to_value(["-c", "touch " + os.path.join(
            d, "created_by_exec")])),
        ("true", lambda: V.TRUE),
        ("utf8", lambda: S("utf-8")),
        ("null", lambda: V.NULL),
    ]


def reachable_functions(session, extra=None):
    """E5: breadth-first search over the real object graph"""
    V = core.ckl.values
    F = core.ckl.functions
    seen = set()
    funcs = {}
    queue = [session.interp.environment, session.interp.base_environment]
    if extra is not None:
        queue.append(extra)
    steps = 0
    while queue:
        x = queue.pop()
        if id(x) in seen:
            continue
        seen.add(id(x))
        steps += 1
        if isinstance(x, F.Environment):
            queue.extend(x.map.values())
            if x.parent is not None:
                queue.append(x.parent)
            if hasattr(x, "modules"):
                queue.extend(x.modules.values())
        elif isinstance(x, F.FuncLambda):
            funcs.setdefault(("lambda", x.name, id(x)), x)
            queue.append(x.lexicalEnv)
            for d in x.defValues:
                if d is not None:
                    queue.append(d)
            queue.append(x.body)
        elif isinstance(x, V.ValueFunc):
            funcs.setdefault(("native", type(x).__name__), x)
            queue.extend(v for v in vars(x).values()
                         if isinstance(v, (V.Value, F.Environment)))
        elif isinstance(x, V.ValueList):
            queue.extend(x.value)
        elif isinstance(x, V.ValueSet):
            queue.extend(x.value)
        elif isinstance(x, V.ValueMap):
            queue.extend(x.value.keys())
            queue.extend(x.value.values())
        elif isinstance(x, V.ValueObject):
            queue.extend(x.value.values())
        elif isinstance(x, V.ValueNode):
            queue.append(x.value)
        elif hasattr(x, "__dict__") and type(x).__module__ == "ckl.nodes":
            # AST nodes: literal values inside bodies
            for v in vars(x).values():
                if isinstance(v, list):
                    queue.extend(e for e in v if e is not None
                                 and not isinstance(e, (str, int)))
                elif v is not None and not isinstance(v, (str, int, bool)):
                    queue.append(v)
    return funcs, steps


def invoke_all(agg, session, fn, label, pool, maxar, origin, shadow=False):
    """call fn with every argument tuple of arity <= maxar from the pool;
    shadow=True: from a scope in which the names of the OS natives are
    ordinary (harmless) variables, as a program is free to define them"""
    try:
        names = fn.getArgNames()
    except Exception:
        names = ["a", "b", "c"]
    n = min(maxar, 3 if any(x.endswith("...") for x in names)
            else len(names))
    F = core.ckl.functions
    for k in range(0, n + 1):
        for combo in itertools.product(pool, repeat=k):
            env = session.interp.environment.newEnv()
            if shadow:
                for osn in OS_NAMES:
                    env.put(osn, core.ckl.values.NULL)
            env.put("f", fn)
            for nm, (_, mk) in zip("abc", combo):
                env.put(nm, mk())
            node = _call_node(k)
            del EVENTS[:]
            REC["on"] = True
            core.set_fuel(20000, 20000)
            core.arm(10)
            try:
                core.outcome_raw(lambda: node.evaluate(env))
            finally:
                core.disarm()
                core.set_fuel(10 ** 12, 10 ** 12)
                REC["on"] = False
            agg.count("steps")
            if EVENTS:
                agg.violation(
                    {"what": "os-access-by-reachable-function",
                     "function": label, "event": EVENTS[0][0]},
                    {"kind": "invoke", "origin": origin, "function": label,
                     "args": [c[0] for c in combo], "shadow": shadow},
                    "no file/process access", list(EVENTS[:3]),
                    size=len(combo))
                return


_nodes = {}


def _call_node(k):
    if k not in _nodes:
        _nodes[k] = core.ckl.parser.parse_script(
            "f(" + ", ".join("abc"[:k]) + ")", "invoke")
    return _nodes[k]


SWEPT = {}


HOST_ENVS = ("root", "none", "nested")


def host_env(how):
    """an environment supplied by the embedding host to interpret()"""
    F = core.ckl.functions
    if how == "root":
        return F.Environment()
    if how == "none":
        return F.get_none_environment()
    return F.Environment().newEnv()


def check_program(agg, session, src, origin, cfg, pool, maxar, canary,
                  host=None):
    """run one attack program, then all oracles on the reached state"""
    del EVENTS[:]
    REC["on"] = True
    core.set_fuel(100000, 100000)
    core.arm(20)
    henv = host_env(host) if host else None
    try:
        if henv is not None:
            o = core.outcome_raw(lambda: session.interp.interpret(
                src, "attack", henv))
        else:
            o = core.outcome_raw(
                lambda: session.interp.interpret(src, "attack"))
    finally:
        core.disarm()
        core.set_fuel(10 ** 12, 10 ** 12)
        REC["on"] = False
    agg.count("steps")
    agg.cls((origin.split(":")[0], o[0]))
    if EVENTS:
        agg.violation({"what": "os-access-during-program",
                       "event": EVENTS[0][0], "origin": origin.split(":")[0]},
                      {"kind": "program", "src": src, "cfg": cfg,
                       "host": host},
                      "no file/process access", list(EVENTS[:3]),
                      size=len(src))
    env = session.interp.environment
    for name in OS_NAMES:
        if env.isDefined(name) or (henv is not None and
                                   henv.isDefined(name)):
            agg.violation({"what": "os-name-defined", "name": name,
                           "origin": origin.split(":")[0]},
                          {"kind": "program", "src": src, "cfg": cfg,
                           "name": name, "host": host}, "undefined",
                          "defined",
                          size=len(src))
    flag = session.interp.base_environment.get(FLAG)
    if flag is not core.ckl.values.TRUE:
        agg.violation({"what": "flag-switched-off",
                       "origin": origin.split(":")[0]},
                      {"kind": "program", "src": src, "cfg": cfg},
                      "TRUE", repr(flag), size=len(src))
    funcs, steps = reachable_functions(session, henv)
    agg.count("reach_nodes", steps)
    swept = SWEPT.setdefault(cfg, set())
    for key, fn in funcs.items():
        k2 = key[:2] if key[0] == "native" else \
            ("lambda", key[1], repr(getattr(fn.body, "pos", None)))
        if k2 in swept:
            continue
        swept.add(k2)
        invoke_all(agg, session, fn, k2[1], pool, maxar,
                   src if host is None else src + "  [host env: %s]" % host)
        if origin == "baseline":
            invoke_all(agg, session, fn, k2[1], pool, maxar, src,
                       shadow=True)
        agg.count("functions_swept")
    if canary_state(canary) != CANARY0[0]:
        agg.violation({"what": "canary-changed",
                       "origin": origin.split(":")[0]},
                      {"kind": "program", "src": src, "cfg": cfg},
                      "unchanged", "changed", size=len(src))
        CANARY0[0] = canary_state(canary)


CANARY0 = [None]


def other_world(legacy):
    o = core.Session(secure=False, legacy=legacy)
    try:
        o.interp.interpret("require IO; require OS; require Sys", "other")
    except BaseException:
        try:
            o.interp.interpret("require IO; require OS", "other")
        except BaseException:
            pass
    return o


def explore(chunk):
    agg = core.Agg()
    install_seam()
    write_modules()
    d = canary_dir()
    CANARY0[0] = canary_state(d)
    pool = path_pool(d)
    if chunk["pool"] < len(pool):
        pool = pool[:chunk["pool"]]
    for legacy in (False, True):
        cfg = "legacy" if legacy else "base"
        session = core.Session(secure=True, legacy=legacy)
        if chunk.get("baseline"):
            # the baseline sweep: everything reachable in a fresh secure
            # interpreter, plus every bundled module required
            mods = [m.value for m in session.interp.base_environment.get(
                "checkerlang_modules").value]
            check_program(agg, session,
                          "; ".join(f"require {m} as Q_{m}" for m in mods)
                          + "; require Attack1; require Probe",
                          "baseline", cfg, pool, chunk["maxar"], d)
            agg.count("cases")
            continue
        other_world(legacy)
        for origin, src, fresh in chunk["programs"]:
            if fresh:
                session = core.Session(secure=True, legacy=legacy)
                # the host also runs a non-secure interpreter, created
                # AFTER the secure one and with its OS modules loaded
                other_world(legacy)
            else:
                session.reset()
            check_program(agg, session, src, origin, cfg, pool,
                          chunk["maxar"], d)
            agg.count("cases")
            if origin.startswith("flag"):
                # the same attack when the embedding host passes its own
                # environment to interpret()
                for how in (HOST_ENVS if origin != "flag-compound"
                            or chunk.get("allhosts") else HOST_ENVS[:1]):
                    session = core.Session(secure=True, legacy=legacy)
                    check_program(agg, session, src, origin + "@" + how,
                                  cfg, pool, chunk["maxar"], d, host=how)
                    agg.count("cases")
            if agg.n["cases"] % 150 == 1:
                agg.sample({"program": src, "config": cfg,
                            "reachable_functions": len(
                                reachable_functions(session)[0])}, 3)
    return agg


def replay(case, verbose=False):
    install_seam()
    write_modules()
    d = canary_dir()
    CANARY0[0] = canary_state(d)
    pool = path_pool(d)
    a = core.Agg()
    SWEPT.clear()
    for legacy in (False, True):
        cfg = "legacy" if legacy else "base"
        if case.get("cfg") not in (None, cfg):
            continue
        s = core.Session(secure=True, legacy=legacy)
        other_world(legacy)
        src = case["src"] if case["kind"] == "program" else case["origin"]
        host = case.get("host")
        if host is None and "  [host env: " in src:
            src, _, h = src.partition("  [host env: ")
            host = h.rstrip("]")
        check_program(a, s, src,
                      "baseline" if case.get("shadow") else "replay", cfg,
                      pool, 2, d, host=host)
    if verbose:
        for k, (sz, v) in a.viol.items():
            print(v)
    return bool(a.viol)


def seam_selftest():
    """non-vacuity: in a NON-secure interpreter the same built-ins must
    produce seam events (otherwise the seam is blind)"""
    install_seam()
    write_modules()
    d = canary_dir()
    s = core.Session(secure=False, legacy=True)
    missing = []
    for src, ev in (
            (f"file_exists('{d}/file.txt')", "os.path.exists"),
            (f"list_dir('{d}')", "os.listdir"),
            (f"file_output('{d}/x.out')", "open"),
            (f"file_input('{d}/file.txt')", "open"),
            (f"file_delete('{d}/file.txt')", None),
            (f"file_move('{d}/file.txt', '{d}/moved')", "os.rename"),
            (f"file_copy('{d}/file.txt', '{d}/copy')", None),
            (f"make_dir('{d}/newdir')", "os.mkdir"),
            (f"file_info('{d}/file.txt')", None),
            (f"execute('sh', ['-c', 'true'])", "subprocess.Popen"),
            (f"run('{d}/script.ckl')", "open")):
        del EVENTS[:]
        REC["on"] = True
        try:
            core.outcome_raw(lambda: s.interp.interpret(src, "selftest"))
        finally:
            REC["on"] = False
        if not EVENTS or (ev is not None and EVENTS[0][0] != ev and
                          not any(e[0] == ev for e in EVENTS)):
            missing.append((src, list(EVENTS)))
    if canary_state(d) != canary_state(d) or \
            os.path.exists(os.path.join(d, "x.out")):
        missing.append(("canary changed: the seam did not block", []))
    return missing


def main(tier, seed):
    t0 = time.time()
    miss = seam_selftest()
    if miss:
        core.harness_error(f"OS seam is blind for: {miss}")
    names = native_names()
    progs = []
    for n in names:
        for alias in (None, "zz"):
            ctx = contexts(n, alias)
            keys = list(ctx) if n in OS_NATIVES else \
                ["top", "function", "eval"]
            if tier == "quick" and n not in OS_NATIVES:
                keys = ["top"] if alias is None else ["function"]
            for k in keys:
                src = ctx[k]
                # after binding, try to use it
                use = alias or n
                progs.append((f"bind:{k}", src +
                              f"; do {use} catch all NULL end", False))
    binds = "; ".join(f"do bind_native('{n}') catch all NULL end"
                      for n in OS_NATIVES)
    for fp in compound_flag_programs(tier):
        progs.append(("flag-compound",
                      f"do {fp} catch all NULL end; " + binds, True))
    for fp in FLAG_PROGRAMS:
        progs.append(("flag", f"do {fp} catch all NULL end; " + binds, True))
        progs.append(("flag-bare", fp, True))
    maxar = 2 if tier == "quick" else 3
    npool = 9 if tier == "quick" else 12
    jobs = [{"baseline": True, "programs": [], "maxar": maxar,
             "pool": npool}]
    for c in core.chunked(progs, core.NPROC * 2):
        jobs.append({"programs": c, "maxar": maxar, "pool": npool,
                     "allhosts": tier == "thorough"})
    agg = core.pmap(explore, jobs)
    agg.n["native_names"] = len(names)
    core.finish(
        PID, tier, seed, agg, t0,
        rule=(f"{len(names)} native names (extracted from the binder's AST) "
              f"x {{no alias, alias}} x binding contexts (all "
              f"{len(contexts('x', None))} contexts for the "
              f"{len(OS_NATIVES)} OS-touching names) + "
              f"{len(FLAG_PROGRAMS)} ways of defining/assigning the secure "
              f"flag (plus one- and two-step compound assignments), each "
              f"followed by binding every OS-touching native, each also "
              f"run with a host-supplied environment ({', '.join(HOST_ENVS)}) "
              f"passed to interpret(); "
              f"both base environments; after every program: BFS over the "
              f"reachable object graph, every function class not swept "
              f"before invoked with every argument tuple of arity <= "
              f"{maxar} from a {npool}-value path/command pool under the "
              f"audit-hook seam; baseline sweep of every bundled module"),
        exhaustive=True,
        assumptions=["get_env (process environment variables) is not file "
                     "access", "reading *.ckl files from the module "
                     "directories during require is allowed by the "
                     "statement", "the seam = CPython audit events + "
                     "wrappers for stat/exists"],
        replay_fn=replay,
    )
