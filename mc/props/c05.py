"""C05 Errors reach the nearest matching handler and finally runs exactly
once.

E2/E3: skeletons = chains (depth <= 2/3) of frames {plain do-block, catch
with one of nine catch expressions, catch all, finally, catch+finally, two
catch clauses, function body, for body, while body}; every statement
position (bodies, handlers, finally parts) is a slot; all programs with 0, 1
and 2 injections of {error with a value of every data kind, undefined name,
division by zero, call of a raising function, return, break, continue}.
Oracles: (a) agreement with the reference evaluator on value / escaping error
value and event log; (b) on every execution, independent of the reference:
each finally part logged exactly once per entry of its block.
"""
import itertools
import time

from mc import core
from mc.ref import refeval as E
from mc.ref import harness as H
from mc.props.c03 import replay as _replay, L, V

PID = "C05"

CATCHES = {
    "a": L("a"), "b": L("b"), "one": L(1), "onef": L(1.0),
    "list": ("list", [L(1), L(2)]), "null": L(None),
    "map": ("map", [(L("k"), L(1))]), "ERROR": L("ERROR"),
    # a proper superset of the map that is raised, and the list/set twins
    "mapsup": ("map", [(L("k"), L(1)), (L("j"), L(2))]),
    "set12": ("set", [L(1), L(2)]),
    # an object whose _str_ member logs: raising it must not render it
    "eo": V("eo"),
    "var": V("cv"), "raises": V("no_such_name"),
}
FRAMES = ["do", "c:a", "c:one", "c:list", "c:null", "c:ERROR", "c:var",
          "c:raises", "c:map", "all", "fin", "c:a+fin", "all+fin",
          "c:b|c:a", "c:a|all", "c:onef+fin", "c:mapsup|c:map",
          "c:set12|c:list", "c:eo", "func", "funcargs", "for",
          "while", "for:set", "for:map", "for:str", "for:input",
          "cb:input", "cb:list", "eval:str", "eval:node", "while:nb",
          "interp", "func:retfin"]
# what the loop frames iterate (two iterations each); an input stream is a
# sequence of lines
ITERABLES = {
    "for": ("list", [L(1), L(2)]),
    "for:set": ("set", [L(2), L(1)]),
    "for:map": ("map", [(L("k1"), L(1)), (L("k2"), L(2))]),
    "for:str": L("xy"),
    "for:input": ("raw", "str_input('l1\\nl2')", ["l1", "l2"]),
}
# a library function that calls back into user code once per line
CALLBACK_SOURCES = {
    "cb:input": ("raw", "str_input('l1\\nl2')", ["l1", "l2"]),
    "cb:list": ("list", [L("l1"), L("l2")]),
}
INJ = {
    "err_a": ("error", L("a")), "err_b": ("error", L("b")),
    "err_1": ("error", L(1)), "err_1f": ("error", L(1.0)),
    "err_list": ("error", ("list", [L(1), L(2)])),
    "err_null": ("error", L(None)),
    "err_map": ("error", ("map", [(L("k"), L(1))])),
    "undef": V("undefined_thing"),
    # assignments to a name that was never defined
    "assign_undef": ("assign", "undefined_thing", L(1)),
    "opassign_undef": ("opassign", "undefined_thing", "+", L(1)),
    "div0": ("bin", "/", L(1), L(0)),
    "callraise": ("call", V("boom"), []),
    "err_obj": ("error", V("eo")),
    # more runtime errors: their value must be the string 'ERROR' as well
    "div0f": ("rawerr", "(1.5 / 0)"), "div0ff": ("rawerr", "(1 / 0.0)"),
    "mod0": ("rawerr", "(1 % 0)"), "idx": ("rawerr", "[1][5]"),
    "conv": ("rawerr", "int('x')"),
    # a module whose top-level code raises a user value while it is loaded
    "req_err": ("rawerrv", "(do require C05ErrA; 0 end)", "a"),
    # a filter that is not a boolean, in every comprehension form
    "comp_l": ("rawerr", "[x for x in [1, 2] if x]"),
    "comp_s": ("rawerr", "<<x for x in [1, 2] if x>>"),
    "comp_m": ("rawerr", "<<<x => x for x in [1, 2] if x>>>"),
    "comp_lp": ("rawerr", "[x for x in [1] for y in [2] if x]"),
    "comp_la": ("rawerr", "[x for x in [1] also for y in [2] if x]"),
    "comp_sp": ("rawerr", "<<x for x in [1] for y in [2] if x>>"),
    "comp_sa": ("rawerr", "<<x for x in [1] also for y in [2] if x>>"),
    # a failure that starts as a host exception inside a built-in
    "hostfail": ("rawerr", "('ab' * 1000000000000000000000)"),
    "return": ("return", L("R")),
    "break": ("break",), "continue": ("continue",),
}
INJ2 = ["err_a", "err_1", "return", "break", "err_list"]
INJ1Q = ["err_a", "err_1f", "err_null", "err_obj", "undef", "assign_undef",
         "callraise",
         "hostfail",
         "div0f", "req_err", "return",
         "break", "continue"]


# depth-2 chains take every injection kind except the extra spellings of a
# runtime error (those run on every depth-1 chain)
INJ_CORE = [k for k in INJ if k not in ("div0ff", "mod0", "idx", "conv",
                                        "req_err", "opassign_undef") and
            not k.startswith("comp_")]

CONTROL = ("return", "break", "continue")


class Builder:
    def __init__(self, frames, injections, observe=False):
        self.frames = frames
        self.observe = observe
        self.slot = 0
        self.ins = {}
        for s, name in injections:
            self.ins.setdefault(s, []).append(name)

    def place(self, out):
        for name in self.ins.get(self.slot, []):
            out.append(INJ[name])
        self.slot += 1

    def frame(self, i):
        if i >= len(self.frames):
            return [("log", L("core"))]
        f = self.frames[i]
        body = [("log", L("e%d" % i))]
        self.place(body)
        body.append(("log", L("p%d" % i)))
        self.place(body)
        body += self.frame(i + 1)
        self.place(body)
        body.append(("log", L("q%d" % i)))
        self.place(body)
        if f == "func":
            return [("def", "fn%d" % i, ("fn", [], ("seq", body +
                                                   [L("ret%d" % i)])),
                     True),
                    ("log", ("list", [L("called%d" % i),
                                      ("call", V("fn%d" % i), [])]))]
        if f == "interp":
            # the body runs in a function called from a placeholder of an
            # interpolated string
            return [("def", "fn%d" % i, ("fn", [], ("seq", body +
                                                   [L("ret%d" % i)])),
                     True),
                    ("log", ("list", [L("interp%d" % i),
                                      ("sinterp",
                                       ("call", V("fn%d" % i), []))]))]
        if f == "func:retfin":
            # a function whose whole body is `do return <call> finally ...
            # end`: the finally part runs once, on return and on failure
            return [("def", "in%d" % i, ("fn", [], ("seq", body +
                                                   [L("ret%d" % i)])),
                     True),
                    ("def", "fn%d" % i,
                     ("fn", [], ("block",
                                 [("return", ("call", V("in%d" % i), []))],
                                 [], [("log", L("f%d" % i))])), True),
                    ("log", ("list", [L("called%d" % i),
                                      ("call", V("fn%d" % i), [])]))]
        if f == "funcargs":
            # errors unwind through a call that has arguments of every
            # kind (the call site renders them for the stack trace)
            ps = [("p%d" % k, None, False) for k in range(8)]
            args = [("pos", V("stdout")), ("pos", L(None)),
                    ("pos", ("list", [L(1), L("a")])),
                    ("pos", ("map", [(L(1), L(2))])),
                    ("pos", ("set", [L("s")])),
                    ("pos", ("obj", [("m", L(1))])),
                    ("pos", V("boom")), ("pos", V("cyc"))]
            return [("def", "fn%d" % i, ("fn", ps, ("seq", body +
                                                   [L("ret%d" % i)])),
                     True),
                    ("log", ("list", [L("called%d" % i),
                                      ("call", V("fn%d" % i), args)]))]
        if f in ITERABLES:
            return [("for", ["i%d" % i], "keys" if f == "for:map" else None,
                     ITERABLES[f], ("seq", [("log", V("i%d" % i))] + body)),
                    ("log", L("after-for%d" % i))]
        if f in CALLBACK_SOURCES:
            cb = ("fn", [("i%d" % i, None, False)],
                  ("seq", [("log", V("i%d" % i))] + body +
                   [L("cbret%d" % i)]))
            return [("log", ("list", [L("lines%d" % i),
                                      ("call", V("process_lines"),
                                       [("pos", CALLBACK_SOURCES[f]),
                                        ("pos", cb)])])),
                    ("log", L("after-cb%d" % i))]
        if f in ("eval:str", "eval:node"):
            # the body runs through eval (of its source text / of the parsed
            # node) in the current scope
            node = "evalstr" if f == "eval:str" else "evalnode"
            return [("log", ("list", [L("evalv%d" % i),
                                      (node, ("seq", body +
                                              [L("evret%d" % i)]))])),
                    ("log", L("after-eval%d" % i))]
        if f == "while:nb":
            # the condition is TRUE once and NULL afterwards: the second
            # test raises the runtime error
            n = "n%d" % i
            cond = ("if", [(("cmp", [V(n), "<", L(1)]), L(True))], L(None))
            return [("def", n, L(0)),
                    ("while", cond,
                     ("seq", [("assign", n, ("bin", "+", V(n), L(1)))] +
                      body)), ("log", L("after-while%d" % i))]
        if f == "while":
            n = "n%d" % i
            return [("def", n, L(0)),
                    ("while", ("cmp", [V(n), "<", L(2)]),
                     ("seq", [("assign", n, ("bin", "+", V(n), L(1)))] +
                      body)), ("log", L("after-while%d" % i))]
        catches = []
        fin = []
        spec = f
        if "+fin" in spec or spec == "fin":
            fin = [("log", L("f%d" % i))]
            self.place(fin)
            spec = spec.replace("+fin", "")
        if spec not in ("do", "fin"):
            for j, c in enumerate(spec.split("|")):
                h = [("log", L("h%d_%d" % (i, j)))]
                self.place(h)
                h.append(L("handled%d_%d" % (i, j)))
                cexpr = None if c == "all" else CATCHES[c[2:]]
                catches.append((cexpr, ("seq", h)))
        if self.observe:
            # the block in expression position: its value is observed
            return [("log", ("list", [L("blockvalue%d" % i),
                                      ("block", body, catches, fin)]))]
        return [("block", body, catches, fin)]

    def program(self):
        stmts = [("raw", "require IO import [process_lines, str_input]",
                  None), ("def", "cv", L("a")),
                 # a list that contains itself (only ever passed along)
                 ("def", "cyc", ("list", [L(1)])),
                 ("raw", "append(cyc, cyc)", None),
                 ("def", "eo", ("obj", [
                     ("tag", L(1)),
                     ("_str_", ("fn", [("self", None, False)],
                                ("seq", [("log", L("str-called")),
                                         L("x")])))])),
                 ("def", "boom", ("fn", [], ("error", L("a"))), True)]
        stmts += self.frame(0)
        stmts.append(("log", L("end")))
        return ("seq", stmts)


def write_modules():
    import os
    d = os.path.join(core.SCRATCH_HOME, ".ckl", "modules")
    os.makedirs(d, exist_ok=True)
    with open(os.path.join(d, "C05ErrA.ckl"), "w") as f:
        f.write("def before = 1;\nerror 'a';\ndef after = 2;\n")


def count_slots(frames):
    b = Builder(frames, [])
    b.program()
    return b.slot


def check(agg, frames, injections, both=True):
    """programs with control-statement injections keep every block in
    statement position (a control statement inside a block that is used as
    a sub-expression is outside the statements); all others are run in
    both forms"""
    if any(name in CONTROL for _, name in injections) or not both:
        _check(agg, frames, injections, False)
    else:
        _check(agg, frames, injections, False)
        _check(agg, frames, injections, True)


def _check(agg, frames, injections, observe):
    b = Builder(frames, injections, observe)
    ast = b.program()
    src = E.render(ast)
    m = E.Machine()
    ref = m.run(ast)
    got, logs = H.run_impl_value(src)
    agg.count("steps")
    sig = {"ninj": len(injections)}
    if got[0] in ("host", "hang", "syn"):
        agg.violation({"part": "escape", "kind": got[0]},
                      {"src": src}, "value or language error", list(got),
                      size=len(src))
        return
    # (b) invariant on the implementation's own log
    if isinstance(logs, list):
        for i, f in enumerate(frames):
            if f == "fin" or "+fin" in f:
                ne = sum(1 for x in logs if x == "e%d" % i)
                nf = sum(1 for x in logs if x == "f%d" % i)
                if ne != nf:
                    agg.violation(
                        {"part": "finally-exactly-once", "frame": f},
                        {"src": src, "invariant": [i, ne, nf]},
                        f"{ne} entries", f"{nf} finally runs",
                        size=len(src))
    if ref[0] == "unspec":
        agg.count("unspecified")
        agg.cls(("unspec",))
        return
    agg.cls((ref[0], got[0], len(injections)))
    ok = got[0] == ref[0] and H.same(ref[1], got[1]) and H.same(m.log, logs)
    if not ok:
        agg.violation({"part": "reference", **sig},
                      {"src": src, "_expected": [list(ref), m.log]},
                      [list(ref), m.log], [list(got), logs], size=len(src))
    if agg.n["steps"] % 5000 == 1:
        agg.sample({"program": src, "result": list(ref), "log": m.log}, 3)


def explore(chunk):
    agg = core.Agg()
    for frames in chunk["skeletons"]:
        n = count_slots(frames)
        check(agg, frames, [])
        names = list(INJ) if chunk["full1"] is True else \
            (INJ1Q if chunk["full1"] == "q" else
             (INJ_CORE if chunk["full1"] == "core" else INJ2))
        for s in range(n):
            for name in names:
                # the broad depth-2 layer of the quick tier observes block
                # values only where an error value decides them
                check(agg, frames, [(s, name)],
                      both=chunk["full1"] != "q" or name.startswith("err"))
        if chunk["two"]:
            for s1 in range(n):
                for s2 in range(s1, n):
                    for a in INJ2:
                        for b in INJ2:
                            if s1 == s2 and a == b:
                                continue
                            check(agg, frames, [(s1, a), (s2, b)])
        agg.count("cases")
    return agg


def replay(case, verbose=False):
    write_modules()
    if "invariant" in case:
        got, logs = H.run_impl_value(case["src"])
        i = case["invariant"][0]
        ne = sum(1 for x in logs if x == "e%d" % i)
        nf = sum(1 for x in logs if x == "f%d" % i)
        if verbose:
            print(case["src"], logs)
        return ne != nf
    return _replay(case, verbose)


def main(tier, seed):
    t0 = time.time()
    write_modules()
    sk1 = [(f,) for f in FRAMES]
    sk2 = [(a, b) for a in FRAMES for b in FRAMES]
    jobs = []
    for c in core.chunked(sk1, 8):
        jobs.append({"skeletons": c, "full1": True, "two": True})
    if tier == "quick":
        core2 = ["c:a", "all", "c:a+fin", "funcargs", "for"]
        # the loop frames over other iterables and the callback frames are
        # paired with the core frame kinds only
        late = FRAMES[FRAMES.index("for:set"):] + [
            "c:mapsup|c:map", "c:set12|c:list", "c:eo"]
        sk2 = [(a, b) for (a, b) in sk2
               if (a not in late and b not in late) or
               (a in late and b in core2) or (b in late and a in core2)]
        for c in core.chunked(sk2, core.NPROC * 4):
            jobs.append({"skeletons": c, "full1": "q", "two": False})
        for c in core.chunked([(a, b) for a in core2 for b in core2],
                              core.NPROC * 2):
            jobs.append({"skeletons": c, "full1": "core", "two": True})
    else:
        for c in core.chunked(sk2, core.NPROC * 8):
            jobs.append({"skeletons": c, "full1": True, "two": True})
        core3 = ["c:a", "c:one", "all", "fin", "c:a+fin", "c:b|c:a", "func",
                 "for", "while", "c:ERROR", "all+fin"]
        sk3 = [(a, b, c) for a in core3 for b in core3 for c in core3]
        for c in core.chunked(sk3, core.NPROC * 8):
            jobs.append({"skeletons": c, "full1": True, "two": False})
    agg = core.pmap(explore, jobs)
    core.finish(
        PID, tier, seed, agg, t0,
        rule=(f"skeleton chains over {len(FRAMES)} frame kinds: all of "
              f"depth 1 and 2" +
              (", depth 3 over 11 kinds" if tier == "thorough" else "") +
              f"; every statement position of bodies, handlers and finally "
              f"parts is a slot; 0 injections, every single injection of "
              f"{len(INJ)} kinds at every slot (quick, depth 2 outside the "
              f"core frame kinds: {len(INJ1Q)} kinds), every pair of injections "
              f"of {len(INJ2)} kinds (depth 1: all; depth 2: " +
              ("all" if tier == "thorough" else "8 core frame kinds") +
              ")"),
        exhaustive=True,
        assumptions=["the value/flow of a block whose finally part itself "
                     "executes return/break/continue is not pinned (only "
                     "the finally-exactly-once invariant is checked there)",
                     "error messages and stack traces are not compared"],
        replay_fn=replay,
    )
