"""C15 Indexing, slicing and sub-sequence functions follow the sequence model.

Engine E1: exhaustive product of all strings/lists up to length L over a
3-symbol alphabet with all integer positions in [-K, K]; every case is run
on the real evaluator/built-ins (forms parsed once by the real parser) and
compared with the reference sequence model below.
"""
import itertools
import time

from mc import core

PID = "C15"

STR_ALPHA = ["a", "b", "'"]
LIST_ALPHA = [0, 1, "a"]

FORMS = {
    "idx": "s[i]",
    # "the first / last n elements": n >= 0 (first_n), n >= 1 (last_n);
    # other counts are not documented
    "first_n": "List->first_n(s, i)",
    "last_n": "List->last_n(s, i)",
    "rest": "List->rest(s)",
    "idx_set": "do s[i] = v; s end",
    "slice": "s[a to b]",
    "slice_end": "s[a to *]",
    "substr1": "substr(s, a)",
    "substr2": "substr(s, a, b)",
    "sublist1": "sublist(s, a)",
    "sublist2": "sublist(s, a, b)",
    "find": "find(s, p)",
    "find_start": "find(s, p, start = a)",
    "find_last": "find_last(s, p)",
    "find_last_start": "find_last(s, p, start = a)",
    "insert_at": "do def r = insert_at(s, i, v); [r, s] end",
    "delete_at": "do def r = delete_at(s, i); [r, s] end",
    "split_join": "s[0 to a] + s[a to *]",
    # the prefix before position i extended by the element at position i is
    # the prefix before i + 1 (i = 0: the empty prefix on the left)
    "prefix_elem": "s[0 to i] + s[i]",
    "len_cat": "[length(s + t), length(s) + length(t), (s + t)[length(s) to *]]",
    "find_cat": "find(s + p + t, p)",
    "rev_rev": "List->reverse(List->reverse(s))",
    "substr_slice": "[substr(s, a, b), s[a to b]]",
    "length": "length(s)",
}

RT = ("rt",)


def val(x):
    return ("value", x)


def norm(i, n):
    return i + n if i < 0 else i


def clamp(i, n):
    return 0 if i < 0 else (n if i > n else i)


def ref_slice(s, a, b):
    n = len(s)
    a = clamp(norm(a, n), n)
    b = clamp(norm(b, n), n)
    return s[a:b] if a < b else s[0:0]


def positions(s, p):
    if isinstance(s, str):
        return [i for i in range(len(s) + 1) if s[i:i + len(p)] == p]
    return [i for i in range(len(s)) if s[i] == p and
            isinstance(s[i], str) == isinstance(p, str)]


def ref_find(s, p, start=0):
    for i in positions(s, p):
        if i >= start:
            return i
    return -1


def cases_for(s, K, big=False):
    """yield (form, vars(dict of plain python), expected or acceptable-set)"""
    n = len(s)
    isstr = isinstance(s, str)
    newv = "z" if isstr else 9
    I = list(range(-K, K + 1))
    if big:
        I = [2 ** 31, -2 ** 31, 2 ** 63, -2 ** 63, 2 ** 31 - 1, -2 ** 63 - 1]
    for i in I:
        j = norm(i, n)
        ok = 0 <= j < n
        yield "idx", {"s": s, "i": i}, \
            [val(s[j])] if ok else [RT]
        if ok and i >= 0:
            yield "prefix_elem", {"s": s, "i": i}, [val(s[:i + 1])]
        if ok:
            exp = s[:j] + newv + s[j + 1:] if isstr \
                else s[:j] + [newv] + s[j + 1:]
            yield "idx_set", {"s": s, "i": i, "v": newv}, [val(exp)]
        else:
            yield "idx_set", {"s": s, "i": i, "v": newv}, [RT]
        yield "slice_end", {"s": s, "a": i}, [val(ref_slice(s, i, n))]
        yield ("substr1" if isstr else "sublist1"), {"s": s, "a": i}, \
            [val(ref_slice(s, i, n))]
        yield "split_join", {"s": s, "a": i}, [val(s)]
        if not isstr and i >= 0:
            yield "first_n", {"s": s, "i": i}, [val(s[:i])]
            if i >= 1:
                yield "last_n", {"s": s, "i": i}, \
                    [val(s[-i:] if i < n else list(s))]
        if not isstr:
            # insert_at: -(n+1) <= i <= n inserts exactly one element
            if -(n + 1) <= i <= n:
                pos = i if i >= 0 else n + i + 1
                new = s[:pos] + [newv] + s[pos:]
            else:
                new = list(s)
            yield "insert_at", {"s": s, "i": i, "v": newv}, [val([new, new])]
            if -n <= i < n:
                jj = norm(i, n)
                yield "delete_at", {"s": s, "i": i}, \
                    [val([s[jj], s[:jj] + s[jj + 1:]])]
            else:
                yield "delete_at", {"s": s, "i": i}, [val([None, list(s)])]
        if not big:
            for b in I:
                exp = ref_slice(s, i, b)
                yield "slice", {"s": s, "a": i, "b": b}, [val(exp)]
                yield ("substr2" if isstr else "sublist2"), \
                    {"s": s, "a": i, "b": b}, [val(exp)]
                if isstr:
                    yield "substr_slice", {"s": s, "a": i, "b": b}, \
                        [val([exp, exp])]
    yield "length", {"s": s}, [val(n)]
    if not isstr:
        yield "rest", {"s": s}, [val(s[1:])]
    if big:
        return
    if isstr:
        P = [""] + STR_ALPHA + [x + y for x in STR_ALPHA for y in STR_ALPHA]
    else:
        P = LIST_ALPHA
    for p in P:
        pos = positions(s, p)
        first = pos[0] if pos else -1
        last = pos[-1] if pos else -1
        yield "find", {"s": s, "p": p}, [val(first)]
        if isstr and p == "":
            # last occurrence of the empty part: position n (host) - the
            # statement leaves "occurs" for the empty string at the very end
            # open between n-1 and n; both accepted
            yield "find_last", {"s": s, "p": p}, \
                [val(n), val(max(n - 1, 0))] if n else [val(0), val(-1)]
        else:
            yield "find_last", {"s": s, "p": p}, [val(last)]
        for k in I:
            if k >= 0:
                yield "find_start", {"s": s, "p": p, "a": k}, \
                    [val(ref_find(s, p, k))]
            else:
                # negative start is undocumented: only soundness
                yield "find_start", {"s": s, "p": p, "a": k}, \
                    [val(-1)] + [val(x) for x in pos] + [RT]
            # find_last with explicit start: last position <= start at which
            # the part starts (reading A) or lies completely within
            # [0, start] (reading B); both satisfy the documentation.
            if isstr and p == "":
                continue
            ra = [x for x in pos if x <= k]
            plen = len(p) if isstr else 1
            rb = [x for x in pos if x + plen - 1 <= k]
            acc = {ra[-1] if ra else -1, rb[-1] if rb else -1}
            if k < 0:
                acc = set([-1] + pos)
                yield "find_last_start", {"s": s, "p": p, "a": k}, \
                    [val(x) for x in sorted(acc)] + [RT]
            else:
                yield "find_last_start", {"s": s, "p": p, "a": k}, \
                    [val(x) for x in sorted(acc)]
    yield "rev_rev", {"s": s}, [val(s)]


def pair_cases(s, t):
    isstr = isinstance(s, str)
    yield "len_cat", {"s": s, "t": t}, \
        [val([len(s) + len(t), len(s) + len(t), t])]
    if isstr:
        for p in STR_ALPHA + ["ab", "a'"]:
            w = s + p + t
            yield "find_cat", {"s": s, "t": t, "p": p}, [val(w.find(p))]


_forms = None


def forms():
    global _forms
    if _forms is None:
        _forms = core.Forms(FORMS, prelude="require List; require String;")
    return _forms


def run_case(form, vars_):
    f = forms()
    real = {k: core.to_value(v) for k, v in vars_.items()}
    return f.ev(form, **real)


def judge(o, accepted):
    """does outcome o match one of the accepted expectations?"""
    for exp in accepted:
        if exp == RT:
            if o[0] == "rt":
                return True
        elif o[0] == "value" and core.strict_eq(core.from_value(o[1]),
                                                exp[1]):
            return True
    return False


def explore(chunk):
    agg = core.Agg()
    K = chunk["K"]
    core.set_fuel(10 ** 9, 10 ** 9)
    for s in chunk["seqs"]:
        core.arm(120)
        try:
            gens = [cases_for(s, K)]
            if len(s) <= 3:
                gens.append(cases_for(s, K, big=True))
            for t in chunk["partners"]:
                if isinstance(t, str) == isinstance(s, str):
                    gens.append(pair_cases(s, t))
            for form, vars_, accepted in itertools.chain(*gens):
                o = run_case(form, vars_)
                agg.count("steps")
                if agg.n["steps"] % 5000 == 1:
                    agg.sample({"src": FORMS[form], "vars": vars_,
                                "observed": core.show_raw(o)}, 4)
                agg.cls((form, o[0], accepted[0][0]))
                if not judge(o, accepted):
                    sig = {"form": form, "kind": o[0],
                           "seq": "string" if isinstance(s, str) else "list"}
                    if o[0] == "host":
                        sig["exc"] = o[1]
                        sig["site"] = o[2]
                    agg.violation(
                        sig, {"form": form, "src": FORMS[form],
                              "vars": vars_},
                        [list(a) for a in accepted], core.show_raw(o))
        finally:
            core.disarm()
        agg.count("cases")
    return agg


def replay(case, verbose=False):
    o = run_case(case["form"], case["vars"])
    # recompute expectation from the model
    s = case["vars"]["s"]
    accepted = None
    gens = [cases_for(s, 9), cases_for(s, 9, big=True)]
    if "t" in case["vars"]:
        gens = [pair_cases(s, case["vars"]["t"])]
    for form, vars_, acc in itertools.chain(*gens):
        if form == case["form"] and vars_ == case["vars"]:
            accepted = acc
            break
    if verbose:
        print("form:", case["src"], "vars:", case["vars"])
        print("observed:", core.show_raw(o))
        print("accepted:", accepted)
    if accepted is None:
        return False
    return not judge(o, accepted)


def all_seqs(alpha, maxlen, as_str):
    out = []
    for n in range(maxlen + 1):
        for t in itertools.product(alpha, repeat=n):
            out.append("".join(t) if as_str else list(t))
    return out


def main(tier, seed):
    t0 = time.time()
    L, K = (4, 6) if tier == "quick" else (6, 9)
    seqs = all_seqs(STR_ALPHA, L, True) + all_seqs(LIST_ALPHA, L, False)
    partners = all_seqs(STR_ALPHA, 2, True) + all_seqs(LIST_ALPHA, 2, False)
    chunks = [{"K": K, "seqs": c, "partners": partners}
              for c in core.chunked(seqs, core.NPROC * 4)]
    agg = core.pmap(explore, chunks)
    core.finish(
        PID, tier, seed, agg, t0,
        rule=(f"all strings over {STR_ALPHA} and lists over {LIST_ALPHA} of "
              f"length <= {L} x all index arguments in [-{K},{K}] (plus "
              f"+-2^31, +-2^63 on length <= 3) x {len(FORMS)} forms; a class "
              f"is (form, outcome kind, expected kind)"),
        exhaustive=True,
        assumptions=[
            "forms are parsed once by the real parser and evaluated by the "
            "real evaluator per case with operands bound as variables",
            "find/find_last with negative start and find_last with explicit "
            "start where the two documented readings differ: any documented "
            "answer accepted",
        ],
        replay_fn=replay,
        extra={"bound": {"max_len": L, "index_range": K}},
    )
