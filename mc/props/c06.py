"""C06 Equality is an equivalence that set membership and map lookup respect.

E1: a closed pool of data values (atoms, all small containers over an atom
subset containing the numerically-equal pairs, selected deeper containers);
ALL ordered pairs are compared on the real value classes and through
interpreted programs, ALL triples are checked for transitivity on the
resulting relation, and ALL insertion orders of every <=5-subset of a 7-value
sub-pool are inserted into real sets and maps.
"""
import itertools
import time

from mc import core
from mc.ref import refvalue as R

PID = "C06"

ATOMS = [
    None, True, False,
    0, 1, -1, 2, 2 ** 53, 2 ** 53 + 1, 2 ** 63, 10 ** 30,
    0.0, -0.0, 1.0, 1.5, 2.0 ** 53, 1e30, -2.5,
    "", "a", "A", "1", "1.0", "TRUE", "'", "a b",
    ("date", "20200101000000"), ("date", "20200101120000"),
    ("date", "19991231000000"),
    # two instants inside one second, and a year below 1000
    ("date", "20200101000000.250000"), ("date", "20200101000000.750000"),
    ("date", "09990101000000"),
    ("pat", "a"), ("pat", "1"),
]
S = [1, 1.0, 0, -0.0, "a", "1", None, True]
ORDER_POOL = [1, 1.0, 2, "a", "1", [1], [1.0]]
# ints whose host hashes collide in a small table: the internal iteration
# order of the host set then depends on the insertion order
COLLIDE_POOL = [1, 9, 17, 3, 11, 33]

# values reached through a mutation history (with the value hashed before
# each mutation) must be interchangeable with freshly built equal values
HISTORY = {
    "elem-assign": "do def l = [y, y]; l in <<[0]>>; l[0] = x; l end",
    "append": "do def l = [x]; l in <<[0]>>; append(l, y); l end",
    "insert_at": "do def l = [y]; l in <<[0]>>; insert_at(l, 0, x); l end",
    "delete_at": "do def l = [x, y, x]; l in <<[0]>>; delete_at(l, 2); l end",
    "remove": "do def l = [x, y, 'gone']; l in <<[0]>>; remove(l, 'gone'); l end",
    "nested-append": "do def i = [x]; def l = [i, y]; l in <<[0]>>; "
                     "i in <<[0]>>; append(i, y); l end",
    "nested-assign": "do def i = [y, y]; def l = [i, y]; l in <<[0]>>; "
                     "i[0] = x; l end",
    "set-append": "do def l = <<x>>; l in <<[0]>>; append(l, y); l end",
    "set-remove": "do def l = <<x, y, 'gone'>>; l in <<[0]>>; remove(l, 'gone'); l end",
    "map-assign": "do def l = <<<'k' => y>>>; l in <<[0]>>; l['k'] = x; "
                  "l['j'] = y; l end",
    "map-put": "do def l = <<<'j' => y>>>; l in <<[0]>>; put(l, 'k', x); l end",
    "list-in-set": "do def i = [y]; def l = <<i>>; l in <<[0]>>; l end",
    "plus-assign": "do def l = [x]; l in <<[0]>>; l += [y]; l end",
    # strings are changed in place too
    "str-assign": "do def l = 'pq'; l in <<'zz'>>; l[0] = 'a'; [l, x, y] end",
    "str-assign-key": "do def l = 'pq'; <<<'zz' => 1>>>[l, 0]; l[-1] = 'b'; "
                      "[x, l, y] end",
    "str-in-list": "do def i = 'pq'; def l = [i, x, y]; l in <<[0]>>; "
                   "i in <<'0'>>; i[1] = 'b'; l end",
}
FRESH = {
    "elem-assign": "[x, y]", "append": "[x, y]", "insert_at": "[x, y]",
    "delete_at": "[x, y]", "remove": "[x, y]",
    "nested-append": "[[x, y], y]", "nested-assign": "[[x, y], y]",
    "set-append": "<<y, x>>", "set-remove": "<<y, x>>",
    "map-assign": "<<<'j' => y, 'k' => x>>>",
    "map-put": "<<<'k' => x, 'j' => y>>>", "list-in-set": "<<[y]>>",
    "plus-assign": "[x, y]",
    "str-assign": "['aq', x, y]", "str-assign-key": "[x, 'pb', y]",
    "str-in-list": "['pb', x, y]",
}
PROBE = ("[h == f, f == h, h in <<f>>, f in <<h>>, <<h>> == <<f>>, "
         "length(<<h, f>>), <<<identity(h) => 1>>>[f, 'nf'], "
         "<<<identity(f) => 1>>>[h, 'nf'], h in [f], "
         "length(set([h, f, h]))]")


def build_pool(tier):
    pool = list(ATOMS)
    d1 = []
    d1.append([])
    for a in S:
        d1.append([a])
    for a, b in itertools.product(S, repeat=2):
        d1.append([a, b])
    d1.append(("set", []))
    for a in S:
        d1.append(("set", [a]))
    for a, b in itertools.combinations(S, 2):
        d1.append(("set", [a, b]))
        d1.append(("set", [b, a]))
    d1.append(("map", []))
    for k in S:
        for v in (1, "a"):
            d1.append(("map", [(k, v)]))
    for k, j in itertools.combinations(S, 2):
        d1.append(("map", [(k, 1), (j, "a")]))
        d1.append(("map", [(j, "a"), (k, 1)]))
        d1.append(("map", [(k, "a"), (j, 1)]))
    if tier == "quick":
        d1 = [x for i, x in enumerate(d1)
              if not (isinstance(x, list) and len(x) == 2 and i % 2)]
    pool += d1
    # objects (member order must not matter, 1 and 1.0 as member values)
    # and syntax nodes (equal to nothing of another kind, whatever they
    # print like)
    pool += [("obj", []), ("obj", [("a", 1)]), ("obj", [("a", 1), ("b", 2)]),
             ("obj", [("b", 2), ("a", 1)]), ("obj", [("a", 1.0), ("b", 2)]),
             ("obj", [("a", 1), ("b", "2")]), ("obj", [("b", 1), ("a", 2)]),
             ("obj", [("c", [1]), ("a", ("set", [1, 2]))]),
             ("obj", [("a", ("set", [2, 1])), ("c", [1.0])]),
             # the prototype is a member like any other: objects that differ
             # in it (or in having one) are different
             ("obj", [("_proto_", ("obj", [("k", "A")])), ("code", 1)]),
             ("obj", [("_proto_", ("obj", [("k", "B")])), ("code", 1)]),
             ("obj", [("code", 1), ("_proto_", ("obj", [("k", "A")]))]),
             ("obj", [("code", 1)]),
             ("node", "1"), ("node", "'a'"), ("node", "NULL"),
             ("node", "[1, 2]"), ("node", "1 + 2"), ("node", "TRUE")]
    deep = [
        [[1]], [[1.0]], [[1, 0]], [[1.0, -0.0]], [("set", [1])],
        [("set", [1.0])], [("map", [(1, "a")])], [("map", [(1.0, "a")])],
        ("set", [[1]]), ("set", [[1.0]]), ("set", [[1], [1.0]]),
        ("set", [("set", [1])]), ("set", [("set", [1.0])]),
        ("set", [("set", [1]), ("set", [1.0])]),
        ("map", [([1], ("set", [1]))]), ("map", [([1.0], ("set", [1.0]))]),
        ("map", [(("set", [0]), [0])]), ("map", [(("set", [-0.0]), [0.0])]),
        [[[1]]], [[[1.0]]], [[("set", [[1]])]], [[("set", [[1.0]])]],
        ("set", [[("set", [1, "a"])]]), ("set", [[("set", ["a", 1.0])]]),
        ("map", [("a", ("map", [(1, [1])]))]),
        ("map", [("a", ("map", [(1.0, [1.0])]))]),
        [("map", [(1, 1), (1.0, 2)])], [("map", [(1, 2)])],
        [("set", [2 ** 53, 2.0 ** 53])], [("set", [2 ** 53])],
        [2 ** 53 + 1], [2.0 ** 53],
    ]
    pool += deep
    return pool


FORMS = {
    "eq": "a == b",
    "ne": "a != b",
    "is": "a is b",
    "ne2": "a <> b",
    "equals": "equals(a, b)",
    "not_equals": "not_equals(a, b)",
    "in_set": "a in <<b>>",
    "in_list": "a in [b]",
    # the library's membership functions decide equality like ==
    "contains_list": "contains([b], a)", "contains_set": "contains(<<b>>, a)",
    "count_list": "count([b, 0, b], a) >= 2",
    "find_list": "find(['x', b], a) == 1",
    "unique_pair": "length(List->unique([a, b])) == 1",
    # list difference removes equal elements, whatever their representative
    "list_minus": "length([b, 'keep', b] - [a]) == 1",
    "list_minus_set": "length([b, 'keep'] - <<a>>) == 1",
    "map_get": "<<<identity(a) => 1>>>[b, 'nf']",
    "set_len": "length(<<a, b>>)",
    "map_len": "length(<<<identity(a) => 1, identity(b) => 2>>>)",
    "in": "a in c",
    "not_in": "a not in c",
    "idx": "c[a, 'nf']",
    "remove": "do def k = set(list(c)); if a in k then remove(k, a); k end",
    "remove_map": "do def k = <<<e[0] => e[1] for e in entries c>>>; "
                  "if a in k then remove(k, a); k end",
    "diff": "set(list(c)) - <<a>>",
    "append2": "do def k = set(list(c)); append(k, a); append(k, b); "
               "length(k) end",
    "contains": "contains(c, a)",
}

_F = {}


def forms():
    if "f" not in _F:
        allf = dict(FORMS)
        for k, v in HISTORY.items():
            allf["hist:" + k] = ("do def h = " + v + "; def f = " +
                                 FRESH[k] + "; " + PROBE + " end")
        _F["f"] = core.Forms(allf, prelude="require List;")
    return _F["f"]


def explore_history(chunk):
    agg = core.Agg()
    f = forms()
    want = [True, True, True, True, True, 1, 1, 1, True, 1]
    for name in chunk["names"]:
        for x in S:
            for y in S:
                r = f.ev("hist:" + name, x=core.to_value(x),
                         y=core.to_value(y))
                agg.count("steps")
                agg.cls(("history", name, r[0]))
                ok = r[0] == "value" and core.strict_eq(
                    core.from_value(r[1]), want)
                if not ok:
                    agg.violation(
                        {"law": "history-built-value-interchangeable",
                         "how": name},
                        {"t": "hist", "name": name, "x": x, "y": y,
                         "src": f.src["hist:" + name]},
                        want, core.show_raw(r), size=len(repr((x, y))))
        agg.count("cases")
    return agg


# one value reached through two names (functions, objects, nodes, streams are
# equal to themselves): putting it into a set or map and naming it again
# must not make it unfindable
SAME_VALUE = {
    "lambda": "fn(v) v", "lambda2": "fn(a, b = 1) [a, b]",
    "named": "do def nf(v) v; nf end", "native": "length",
    "object": "<*a = 1, b = [2]*>", "empty-object": "<**>",
    "node": "parse('1 + x')", "pattern": "//a+//",
    "list": "[1, [2]]", "date": "date('20200101')",
}
SAME_PROBE = ("do def v1 = {E}; def s = <<v1>>; "
              "def m = <<<identity(v1) => 1>>>; def l = [v1]; "
              "def v2 = v1; def v3 = identity(v2); "
              "[v1 in s, v2 in s, v3 in s, v1 == v2, v2 == v1, "
              "length(<<v1, v2, v3>>), m[v1, 'nf'], m[v2, 'nf'], "
              "m[v3, 'nf'], v2 in l, length(s + <<v2>>), "
              "do remove(s, v3); length(s) end] end")
SAME_WANT = [True, True, True, True, True, 1, 1, 1, 1, True, 1, 0]


def explore_same(chunk):
    agg = core.Agg()
    s = core.Session(secure=True, legacy=True)
    for name, expr in SAME_VALUE.items():
        src = SAME_PROBE.replace("{E}", expr)
        s.reset()
        o = core.outcome_raw(lambda: s.interp.interpret(src, "same"))
        agg.count("steps")
        got = core.from_value(o[1]) if o[0] == "value" else core.show_raw(o)
        agg.cls(("same", name, o[0]))
        if got != SAME_WANT:
            agg.violation({"law": "one-value-two-names", "kind": name},
                          {"t": "same", "src": src}, SAME_WANT, got,
                          size=len(src))
        agg.count("cases")
    return agg


def real_eq(x, y):
    return x == y


def explore_pairs(chunk):
    """rows of the pair matrix: for each i in chunk, all j"""
    agg = core.Agg()
    pool = chunk["pool"]
    vals = [core.to_value(p) for p in pool]
    vals2 = [core.to_value(p) for p in pool]   # distinct objects
    f = forms()
    rows = {}
    core.arm(600)
    try:
        for i in chunk["rows"]:
            a = vals[i]
            row = []
            for j, b in enumerate(vals2):
                exp = R.equal(pool[i], pool[j])
                o = core.outcome_raw(lambda: (a == b, b == a, a != b,
                                              hash(a), hash(b)))
                agg.count("steps")
                if o[0] != "value":
                    agg.violation({"law": "eq-raises", "kind": o[0]},
                                  {"t": "pair", "a": pool[i], "b": pool[j]},
                                  "boolean", core.show_raw(o)
                                  if o[0] in ("rt",) else list(o))
                    row.append(False)
                    continue
                ab, ba, ne, ha, hb = o[1]
                ab, ba, ne = bool(ab), bool(ba), bool(ne)
                row.append(ab)
                agg.cls(("pair", R.kind(pool[i]), R.kind(pool[j]), ab))

                def bad(law, expd, obs):
                    agg.violation(
                        {"law": law, "ka": R.kind(pool[i]),
                         "kb": R.kind(pool[j])},
                        {"t": "pair", "a": pool[i], "b": pool[j],
                         "law": law}, expd, obs)
                if ab != exp:
                    bad("agrees-with-definition", exp, ab)
                if ab != ba:
                    bad("symmetric", ab, ba)
                if ne != (not ab):
                    bad("ne-is-negation", not ab, ne)
                if ab and ha != hb:
                    bad("equal-implies-equal-hash", ha, hb)
                if i == j and not ab:
                    bad("reflexive", True, ab)
                # the same relation through interpreted programs
                for name, want in (("eq", ab), ("is", ab), ("equals", ab),
                                   ("ne", not ab), ("ne2", not ab),
                                   ("not_equals", not ab),
                                   ("in_set", ab), ("in_list", ab),
                                   ("contains_list", ab),
                                   ("contains_set", ab), ("count_list", ab),
                                   ("find_list", ab), ("unique_pair", ab),
                                   ("list_minus", ab),
                                   ("list_minus_set", ab)):
                    r = f.ev(name, a=a, b=b)
                    agg.count("steps")
                    if not (r[0] == "value" and
                            r[1] is (core.ckl.values.TRUE if want
                                     else core.ckl.values.FALSE)):
                        bad("program:" + name, want, core.show_raw(r))
                r = f.ev("map_get", a=a, b=b)
                want = 1 if ab else "nf"
                if not (r[0] == "value" and core.strict_eq(
                        core.from_value(r[1]), want)):
                    bad("program:map_get", want, core.show_raw(r))
                r = f.ev("set_len", a=a, b=b)
                want = 1 if ab else 2
                if not (r[0] == "value" and core.strict_eq(
                        core.from_value(r[1]), want)):
                    bad("program:set_len", want, core.show_raw(r))
                r = f.ev("map_len", a=a, b=b)
                if not (r[0] == "value" and core.strict_eq(
                        core.from_value(r[1]), want)):
                    bad("program:map_len", want, core.show_raw(r))
                agg.count("steps", 3)
            rows[i] = row
            agg.count("cases")
    finally:
        core.disarm()
    agg.rows = rows
    return agg


class RowAgg(core.Agg):
    pass


def explore_interchange(chunk):
    """for every equal pair (a, b) of distinct representations and every
    container c of the pool: membership, lookup, removal, difference and
    double insertion give the same answer for a and b"""
    agg = core.Agg()
    pool = chunk["pool"]
    f = forms()
    conts = [k for k, p in enumerate(pool)
             if R.kind(p) in ("list", "set", "map")]
    core.arm(900)
    try:
        for (i, j) in chunk["pairs"]:
            for k in conts:
                c = pool[k]
                kc = R.kind(c)
                names = ["in", "not_in", "contains"]
                if kc == "map":
                    names += ["idx", "remove_map"]
                if kc in ("set", "list"):
                    names += ["remove", "diff", "append2"]
                for name in names:
                    ra = f.ev(name, a=core.to_value(pool[i]),
                              b=core.to_value(pool[j]), c=core.to_value(c))
                    rb = f.ev(name, a=core.to_value(pool[j]),
                              b=core.to_value(pool[i]), c=core.to_value(c))
                    agg.count("steps", 2)
                    sa, sb = core.show_raw(ra), core.show_raw(rb)
                    agg.cls(("interchange", name, kc, sa[0]))
                    ok = sa == sb
                    if ok and name == "in" and ra[0] == "value":
                        ok = (repr(ra[1]) == "TRUE") == R.member(pool[i], c)
                    if core.is_bad(ra) or core.is_bad(rb):
                        ok = False
                    if not ok:
                        agg.violation(
                            {"law": "interchangeable:" + name, "kc": kc},
                            {"t": "inter", "a": pool[i], "b": pool[j],
                             "c": c, "form": name}, sa, sb)
            agg.count("cases")
    finally:
        core.disarm()
    return agg


def explore_orders(chunk):
    """all insertion orders of every subset: equal, equal hash, same text"""
    agg = core.Agg()
    V = core.ckl.values
    for subset in chunk["subsets"]:
        ref_set = ref_map = None
        for perm in itertools.permutations(subset):
            s = V.ValueSet()
            m = V.ValueMap()
            for x in perm:
                s.addItem(core.to_value(x))
            # map: first-inserted equal key wins the key, value is constant
            for x in perm:
                m.addItem(core.to_value(x), V.ValueInt(7))
            obs = core.outcome_raw(
                lambda: (hash(s), repr(s), hash(m), repr(m), len(s.value)))
            agg.count("steps")
            if obs[0] != "value":
                agg.violation({"law": "orders-raise"},
                              {"t": "order", "perm": list(perm)},
                              "renderable", list(obs[:2]))
                continue
            hs, rs, hm, rm, n = obs[1]
            want_n = len(R.dedupe(list(subset)))
            if n != want_n:
                agg.violation({"law": "set-holds-equal-elements-once"},
                              {"t": "order", "perm": list(perm)}, want_n, n)
            if ref_set is None:
                ref_set, ref_map = (s, hs, rs), (m, hm, rm)
                continue
            agg.cls(("order", len(subset), n))
            if not (s == ref_set[0] and ref_set[0] == s):
                agg.violation({"law": "sets-equal-any-insertion-order"},
                              {"t": "order", "perm": list(perm)},
                              ref_set[2], rs)
            if hs != ref_set[1]:
                agg.violation({"law": "set-hash-any-insertion-order"},
                              {"t": "order", "perm": list(perm)},
                              ref_set[1], hs)
            if not (m == ref_map[0]) or hm != ref_map[1]:
                agg.violation({"law": "maps-equal-any-insertion-order"},
                              {"t": "order", "perm": list(perm)},
                              ref_map[2], rm)
            # rendering: elements that are equal but differently
            # represented (1 / 1.0) may legitimately show either
            # representative, so compare texts only when the subset has no
            # such pair
            if len(R.dedupe(list(subset))) == len(subset):
                if rs != ref_set[2] or rm != ref_map[2]:
                    agg.violation(
                        {"law": "rendering-any-insertion-order"},
                        {"t": "order", "perm": list(perm)},
                        [ref_set[2], ref_map[2]], [rs, rm])
        agg.count("cases")
    return agg


def replay(case, verbose=False):
    pool = None
    if case["t"] == "same":
        s = core.Session(secure=True, legacy=True)
        o = core.outcome_raw(lambda: s.interp.interpret(case["src"], "same"))
        got = core.from_value(o[1]) if o[0] == "value" else core.show_raw(o)
        if verbose:
            print(case["src"], "->", got, "expected", SAME_WANT)
        return got != SAME_WANT
    if case["t"] == "pair":
        chunk = {"pool": [case["a"], case["b"]], "rows": [0, 1]}
        chunk["pool"] = [_fix(x) for x in chunk["pool"]]
        agg = explore_pairs(chunk)
    elif case["t"] == "triple":
        p = [_fix(case["a"]), _fix(case["b"]), _fix(case["c"])]
        v = [core.to_value(x) for x in p]
        bad = (v[0] == v[1]) and (v[1] == v[2]) and not (v[0] == v[2])
        if verbose:
            print("triple", p, "transitivity broken:", bad)
        return bad
    elif case["t"] == "hist":
        agg = explore_history({"names": [case["name"]]})
    elif case["t"] == "inter":
        p = [_fix(case["a"]), _fix(case["b"]), _fix(case["c"])]
        agg = explore_interchange({"pool": p, "pairs": [(0, 1)]})
    else:
        perm = [_fix(x) for x in case["perm"]]
        agg = explore_orders({"subsets": [tuple(perm)]})
    if verbose:
        for k, (sz, v) in agg.viol.items():
            print(v)
    return bool(agg.viol)


def _fix(x):
    """json round trip turns tuples into lists: restore tagged tuples"""
    if isinstance(x, list):
        if len(x) == 2 and x[0] in ("set", "map", "date", "pat") and \
                not (x[0] in ("set", "map") and not isinstance(x[1], list)):
            if x[0] == "set":
                return ("set", [_fix(e) for e in x[1]])
            if x[0] == "map":
                return ("map", [(_fix(k), _fix(v)) for k, v in x[1]])
            if isinstance(x[1], str):
                return (x[0], x[1])
        return [_fix(e) for e in x]
    return x


def main(tier, seed):
    t0 = time.time()
    pool = build_pool(tier)
    n = len(pool)
    rows = list(range(n))
    chunks = [{"pool": pool, "rows": c}
              for c in core.chunked(rows, core.NPROC * 2)]
    # pair matrix (needs the rows back): run chunks in the pool by hand
    import multiprocessing
    ctx = multiprocessing.get_context("fork")
    with ctx.Pool(core.NPROC) as p:
        res = p.map(_pairs_with_rows, chunks, 1)
    agg = core.Agg()
    M = [None] * n
    for a, rws in res:
        agg.merge(a)
        for i, r in rws.items():
            M[i] = r
    # transitivity over ALL ordered triples of the relation computed by the
    # implementation
    triples = 0
    eqidx = [[j for j in range(n) if M[i][j]] for i in range(n)]
    for a in range(n):
        for b in eqidx[a]:
            for c in eqidx[b]:
                if not M[a][c]:
                    agg.violation(
                        {"law": "transitive", "ka": R.kind(pool[a]),
                         "kb": R.kind(pool[b]), "kc": R.kind(pool[c])},
                        {"t": "triple", "a": pool[a], "b": pool[b],
                         "c": pool[c]}, True, False)
    triples = n * n * n
    agg.count("steps", 0)
    agg.n["triples_checked"] = triples
    # interchangeability for all equal pairs of distinct pool entries
    eqpairs = [(i, j) for i in range(n) for j in range(n)
               if i < j and M[i][j]]
    agg.n["equal_pairs"] = len(eqpairs)
    a2 = core.pmap(explore_interchange,
                   [{"pool": pool, "pairs": c}
                    for c in core.chunked(eqpairs, core.NPROC * 2)])
    agg.merge(a2)
    # insertion orders
    maxk = 4 if tier == "quick" else 5
    subsets = [c for k in range(1, maxk + 1)
               for c in itertools.combinations(ORDER_POOL, k)]
    subsets += [c for k in range(2, maxk + 1)
                for c in itertools.combinations(COLLIDE_POOL, k)]
    # sets of sets / lists of sets whose inner sets collide
    subsets += [(("set", [1, 9]), ("set", [9, 1]), 3),
                (("set", [1, 9, 17]), ("set", [17, 9, 1]), [("set", [9, 1])]),
                (("map", [(1, 0), (9, 0)]), ("map", [(9, 0), (1, 0)]), 2)]
    agg.merge(core.pmap(explore_history, [{"names": [n]} for n in HISTORY]))
    agg.merge(core.pmap(explore_same, [{}]))
    a3 = core.pmap(explore_orders,
                   [{"subsets": c} for c in core.chunked(subsets,
                                                         core.NPROC)])
    agg.merge(a3)
    agg.sample({"pair": [repr(pool[5]), repr(pool[13])],
                "equal": M[5][13]})
    agg.sample({"pool_size": n, "equal_pairs": len(eqpairs),
                "first_equal_pairs": [[repr(pool[i]), repr(pool[j])]
                                      for i, j in eqpairs[:5]]})
    core.finish(
        PID, tier, seed, agg, t0,
        rule=(f"pool of {n} data values (atoms, all lists/sets/maps with "
              f"<= 2 entries over {len(S)} atoms incl. 1/1.0, 0/-0.0, "
              f"selected depth 2-3 containers): all {n * n} ordered pairs on "
              f"the value API and through 11 program forms, all {triples} "
              f"ordered triples for transitivity, all equal pairs x all "
              f"containers for interchangeability, all insertion orders of "
              f"all <= {maxk}-subsets of a 7-value pool and of 6 ints with "
              f"colliding host hashes; {len(HISTORY)} ways of reaching a "
              f"container through mutations after it was hashed x all pairs "
              f"of {len(S)} atoms vs the freshly built equal value; class = "
              f"(check, "
              f"kinds, result)"),
        exhaustive=True,
        assumptions=["NaN/inf decimals, functions, streams, objects and "
                     "mutation after insertion are out of scope"],
        replay_fn=replay,
        extra={"pool_size": n, "triples": triples,
               "equal_pairs": len(eqpairs)},
    )


def _pairs_with_rows(chunk):
    core.install_fuel()
    a = explore_pairs(chunk)
    rows = a.rows
    del a.rows
    return a, rows
