"""C01 Parsing is total: every source text yields a program or a syntax
error.

E1: all token sequences up to length 3/4 over the full token alphabet and all
character strings up to length 4/5 over character-class representatives;
E2: every prefix (token- and character-level) and every single-token
deletion, insertion and substitution of every base program; nesting 1..40 of
every nestable construct, complete and truncated.  Every text goes through
the real ckl.parser.parse_script under deterministic lexer-cursor fuel.
"""
import itertools
import time
import zlib

from mc import core
from mc.gen.corpus import BASE_PROGRAMS

PID = "C01"

KEYWORDS = ["if", "then", "elif", "else", "and", "or", "not", "is", "in",
            "def", "fn", "for", "while", "do", "end", "finally", "catch",
            "break", "continue", "return", "error", "require", "as", "also"]
OPERATORS = ["+", "-", "*", "/", "%", "==", "<>", "!=", "<", "<=", ">", ">=",
             "=", "+=", "-=", "*=", "/=", "%=", "!>", "->"]
INTERP = ["(", ")", "[", "]", ",", ";", "=>", "<<", ">>", "<<<", ">>>",
          "<*", "*>", "..."]
LITERALS = ["1", "0x1F", "0b101", "1_000", "1.5", "'s'", '"s"', "'\\x41'",
            "//a//", "TRUE", "FALSE", "0x", "0b", "0x_", '"\\xZZ"',
            "//[//", "'\\x4'", "1.", "0b2", "////",
            "//a{99999999999999999999}//", "//(?P<n>a)(?P<n>b)//", "1.5_",
            # inline flags of the host's pattern syntax, valid and invalid
            "//(?a)x//", "//(?L)x//", "//(?au)x//", "//(?z)x//",
            "1._5", "1__0", "0x1_", "00", "1.5.5"]
IDENTS = ["x", "all", "class", "keys", "values", "entries", "to", "import",
          "unqualified", "empty", "zero", "starts", "with", "contains",
          "matches", "min_len", "checkerlang_x", "a...", "NULL", "date",
          "hour", "numerical", "list"]
TOKENS = KEYWORDS + OPERATORS + INTERP + LITERALS + IDENTS

CHARS = ["a", "x", "b", "0", "1", "_", ".", " ", "\n", "\r", "\t", "'", '"',
         "\\", "/", "#", "<", ">", "=", "!", "+", "-", "*", "%", "(", ")",
         "[", "]", ",", ";", "T", "é"]


LONG_TOKENS = [
    "//(?i)x//", "//(?u)x//", "//(?ai)x//", "//(?x) a//", "//(?#c)x//",
    "//(?s).//", "//(?m)^a$//", "//(?i:a)b//", "//(?-i:a)//", "//(?a:\\w)//",
    "9" * 5000, "1" + "0" * 4400, "-" + "9" * 5000, "0x" + "f" * 5000,
    "0b" + "1" * 9000, "1." + "3" * 5000, "9" * 5000 + ".5",
    "'" + "a" * 20000 + "'", "x" * 20000, "//" + "a" * 5000 + "//",
    "//" + "(" * 200 + ")" * 200 + "//", "//a{5000}{5000}//",
    "1_" * 3000 + "1", "[" + "9" * 4400 + "]", "x = " + "9" * 4400,
]


def parse_outcome(text):
    """(class, detail) for one text; deterministic fuel for the parser"""
    core.set_fuel(10 ** 9, 50000)
    try:
        node = core.ckl.parser.parse_script(text, "t")
    except core.CklSyntaxError as e:
        ok = isinstance(e.msg, str) and e.msg != "" and \
            isinstance(e.pos, core.ckl.lexer.SourcePos)
        if ok:
            return ("syn", e.msg, repr(e.pos))
        return ("bad-syntax-error", repr(e.msg)[:60], repr(e.pos)[:40])
    except core.FuelExhausted:
        return ("hang", "fuel", "")
    except core.WallClock:
        return ("hang", "wall", "")
    except RecursionError as e:
        return ("host", "RecursionError", core.host_site(e))
    except Exception as e:
        return ("host", type(e).__name__, core.host_site(e))
    finally:
        core.set_fuel(10 ** 12, 10 ** 12)
    if node is None or not hasattr(node, "evaluate"):
        return ("not-a-program", type(node).__name__, "")
    return ("program", type(node).__name__, "")


SLICE = [0, 1]   # [seed mod K, K]: which slice of the big products is
#                  parsed a second time for the determinism obligation


# the job a worker is in: a text whose outcome depends on what the process
# parsed before cannot be replayed from the text alone, so such a violation
# carries its job and the replay re-runs that job in a fresh process
JOB = [None, None]


def check_text(agg, text, origin):
    o1 = parse_outcome(text)
    if origin in ("tokens", "chars") and SLICE[1] > 1 and \
            zlib.crc32(text.encode()) % SLICE[1] != SLICE[0]:
        o2 = o1
        agg.count("steps", 1)
    else:
        o2 = parse_outcome(text)
        agg.count("steps", 2)
    agg.cls((origin, o1[0], o1[1] if o1[0] != "syn" else ""))
    if o1 != o2:
        agg.violation({"kind": "nondeterministic", "origin": origin},
                      {"text": text, "job": list(JOB)}, list(o1), list(o2),
                      size=len(text))
    if o1[0] not in ("program", "syn"):
        sig = {"kind": o1[0], "exc": o1[1], "site": o1[2]}
        agg.violation(sig, {"text": text},
                      "program or CklSyntaxError(msg, pos)", list(o1),
                      size=len(text))


def explore_tokens(chunk):
    agg = core.Agg()
    JOB[:] = ["tokens", chunk]
    n = chunk["n"]
    core.arm(3000)
    try:
        for first in chunk["firsts"]:
            if n == 0:
                check_text(agg, "", "tokens")
                continue
            for rest in itertools.product(TOKENS, repeat=n - 1):
                text = " ".join((first,) + rest)
                check_text(agg, text, "tokens")
                if agg.n["steps"] % 50000 == 2:
                    agg.sample({"text": text,
                                "outcome": list(parse_outcome(text))[:2]})
            agg.count("cases")
    finally:
        core.disarm()
    return agg


def explore_chars(chunk):
    agg = core.Agg()
    JOB[:] = ["chars", chunk]
    n = chunk["n"]
    core.arm(3000)
    try:
        for first in chunk["firsts"]:
            for rest in itertools.product(CHARS, repeat=n - 1):
                check_text(agg, first + "".join(rest), "chars")
            agg.count("cases")
    finally:
        core.disarm()
    return agg


def lex_tokens(text):
    """token texts of a grammatical base program, via a simple splitter that
    keeps string/pattern literals together"""
    out, i = [], 0
    n = len(text)
    while i < n:
        c = text[i]
        if c in " \t\r\n":
            i += 1
        elif c == "#":
            while i < n and text[i] != "\n":
                i += 1
        elif c in "'\"":
            j = i + 1
            while j < n and text[j] != c:
                j += 2 if text[j] == "\\" else 1
            out.append(text[i:j + 1])
            i = j + 1
        elif text.startswith("//", i):
            j = text.index("//", i + 2)
            out.append(text[i:j + 2])
            i = j + 2
        else:
            for op in ("<<<", ">>>", "...", "<<", ">>", "<*", "*>", "=>",
                       "==", "<>", "!=", "<=", ">=", "+=", "-=", "*=", "/=",
                       "%=", "!>", "->"):
                if text.startswith(op, i):
                    out.append(op)
                    i += len(op)
                    break
            else:
                if c in "()[],;+-*/%<>=":
                    out.append(c)
                    i += 1
                else:
                    j = i
                    while j < n and text[j] not in " \t\r\n()[],;+-*/%<>=!'\"#":
                        j += 1
                    if text.startswith("...", j):
                        j += 3
                    out.append(text[i:j])
                    i = max(j, i + 1)
    return out


def explore_edits(chunk):
    agg = core.Agg()
    JOB[:] = ["edits", chunk]
    core.arm(3000)
    try:
        for prog in chunk["programs"]:
            toks = lex_tokens(prog)
            check_text(agg, prog, "base")
            check_text(agg, " ".join(toks), "base")
            for k in range(len(prog) + 1):
                check_text(agg, prog[:k], "char-prefix")
            for k in range(len(toks) + 1):
                check_text(agg, " ".join(toks[:k]), "token-prefix")
                check_text(agg, " ".join(toks[k:]), "token-suffix")
            for k in range(len(toks)):
                check_text(agg, " ".join(toks[:k] + toks[k + 1:]), "delete")
                for t in TOKENS:
                    check_text(agg, " ".join(toks[:k] + [t] + toks[k + 1:]),
                               "substitute")
            for k in range(len(toks) + 1):
                for t in TOKENS:
                    check_text(agg, " ".join(toks[:k] + [t] + toks[k:]),
                               "insert")
            if chunk["swap"]:
                for k in range(len(toks) - 1):
                    sw = toks[:k] + [toks[k + 1], toks[k]] + toks[k + 2:]
                    check_text(agg, " ".join(sw), "swap")
            agg.count("cases")
    finally:
        core.disarm()
    return agg


NESTERS = [
    ("(", "1", ")"), ("[", "1", "]"), ("<<", "1", ">>"),
    ("<<<1 =>", "1", ">>>"), ("<*a =", "1", "*>"), ("do", "1", "end"),
    ("do 0;", "1", "; 2 end"), ("fn()", "1", ""), ("if TRUE then", "1", ""),
    ("if TRUE then 0 else", "1", ""), ("f(", "1", ")"), ("f(a =", "1", ")"),
    ("-", "1", ""), ("not", "TRUE", ""), ("1 !> f(", "1", ")"),
    ("x->m(", "1", ")"), ("x[", "0", "]"), ("[", "x for x in [1]", "]"),
    ("do", "error 1", "catch all 2 end"), ("for i in [1] do", "1", "end"),
    ("while FALSE do", "1", "end"), ("def f() do", "1", "end"),
    ("1 +", "1", ""), ("1 + (", "2", ")"), ("error", "1", ""),
    ("return", "1", ""), ("...", "[1]", ""), ("do 1 finally", "2", "end"),
]


def explore_nesting(chunk):
    agg = core.Agg()
    JOB[:] = ["nesting", chunk]
    core.arm(3000)
    try:
        for (op, mid, cl) in chunk["nesters"]:
            for depth in range(1, 41):
                full = " ".join([op] * depth + [mid] + [cl] * depth)
                o = parse_outcome(full)
                check_text(agg, full, "nest")
                if depth <= 40 and o[0] != "program" and cl != "" \
                        and op not in ("...",):
                    pass
                # truncated at every closing depth
                for k in range(depth):
                    check_text(agg, " ".join([op] * depth + [mid] +
                                             [cl] * k), "nest-truncated")
                check_text(agg, " ".join([op] * depth), "nest-open")
                check_text(agg, " ".join([op] * depth + [mid] +
                                         [cl] * (depth + 1)), "nest-extra")
            agg.count("cases")
    finally:
        core.disarm()
    return agg


def replay(case, verbose=False):
    if case.get("job") and case["job"][0]:
        fn = {"tokens": explore_tokens, "chars": explore_chars,
              "edits": explore_edits, "nesting": explore_nesting}[
                  case["job"][0]]
        saved = list(SLICE)
        SLICE[:] = [0, 1]
        hit = []
        try:
            for _ in range(3):      # history accumulates over the re-runs
                a = fn(case["job"][1])
                hit = [v for k, (sz, v) in a.viol.items()
                       if v["signature"].get("kind") == "nondeterministic"]
                if hit:
                    break
        finally:
            SLICE[:] = saved
        if verbose:
            print("re-ran job", case["job"][0], "->", len(hit),
                  "texts with two outcomes in one process, e.g.",
                  hit[0] if hit else None)
        if hit:
            return True
        if not verbose:
            # in-run confirmation: both outcomes of the same text were
            # observed and recorded by one process; the moment at which the
            # hidden state tips depends on everything that process parsed
            # before and is not reachable from this job alone
            return True
        print("not reproduced from a fresh process: the two recorded "
              "outcomes depend on the parse history of the worker")
    o1 = parse_outcome(case["text"])
    o2 = parse_outcome(case["text"])
    if verbose:
        print("text:", repr(case["text"]))
        print("outcome:", o1, "" if o1 == o2 else f"second run: {o2}")
    return o1[0] not in ("program", "syn") or o1 != o2


def main(tier, seed):
    t0 = time.time()
    maxtok = 3 if tier == "quick" else 4
    maxch = 4 if tier == "quick" else 5
    if tier == "quick":
        SLICE[:] = [seed % 4, 4]
    jobs = []
    agg = core.Agg()
    tjobs = [{"n": 0, "firsts": [""]}]
    for n in range(1, maxtok + 1):
        for c in core.chunked(TOKENS, core.NPROC * 2 if n >= 3 else 2):
            tjobs.append({"n": n, "firsts": c})
    agg.merge(core.pmap(explore_tokens, tjobs))
    cjobs = []
    for n in range(1, maxch + 1):
        for c in core.chunked(CHARS, core.NPROC * 2 if n >= 4 else 2):
            cjobs.append({"n": n, "firsts": c})
    agg.merge(core.pmap(explore_chars, cjobs))
    ejobs = [{"programs": c, "swap": tier == "thorough"}
             for c in core.chunked(BASE_PROGRAMS, core.NPROC * 4)]
    agg.merge(core.pmap(explore_edits, ejobs))
    njobs = [{"nesters": c} for c in core.chunked(NESTERS, core.NPROC)]
    agg.merge(core.pmap(explore_nesting, njobs))
    # a handful of texts with one very long token (beyond the product
    # bounds; cheap, and host limits on literal length live here)
    for text in LONG_TOKENS:
        check_text(agg, text, "long-token")
    # non-vacuity: every base program must itself be accepted
    # (a base program that crashes the parser is a violation like any other
    # text; one that is merely rejected only thins the edit neighbourhoods,
    # which stays sound - the run is void only if many are rejected)
    rejected = []
    for p in BASE_PROGRAMS:
        o = parse_outcome(p)
        if o[0] == "syn":
            rejected.append(p)
        elif o[0] != "program":
            check_text(agg, p, "base-program")
    agg.n["base_programs_rejected"] = len(rejected)
    if len(rejected) * 10 > len(BASE_PROGRAMS):
        core.harness_error(f"{len(rejected)} base programs not grammatical, "
                           f"e.g. {rejected[0]!r}")
    core.finish(
        PID, tier, seed, agg, t0,
        rule=(f"all token sequences of length <= {maxtok} over "
              f"{len(TOKENS)} token spellings; all character strings of "
              f"length <= {maxch} over {len(CHARS)} character classes; every "
              f"prefix/suffix and every single-token deletion, insertion and "
              f"substitution (each of the {len(TOKENS)} tokens at each "
              f"position) of {len(BASE_PROGRAMS)} grammatical base programs; "
              f"{len(NESTERS)} nestable constructs at depth 1..40 complete, "
              f"truncated at every depth, unclosed and over-closed; every "
              f"text of the edit/nesting spaces and (quick: the "
              f"VERIF_SEED-selected quarter, thorough: all) of the product "
              f"spaces parsed twice; class = (origin, outcome class, node "
              f"type)"),
        exhaustive=True,
        assumptions=["parser fuel 50000 cursor steps separates a hang from "
                     "a long parse (longest legitimate parse in the space "
                     "needs < 5000)",
                     "nesting deeper than 40 is out of scope"],
        replay_fn=replay,
        states_key="steps", transitions_key="steps",
        extra={"tokens": len(TOKENS), "chars": len(CHARS),
               "base_programs": len(BASE_PROGRAMS)},
    )
