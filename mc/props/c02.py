"""C02 Operators evaluate per the language definition; integer arithmetic is
exact.

E1/E3: (1) every ordered pair of binary operators in the flat text
`a op1 b op2 c` x all operand triples; the expected grouping comes from an
independent precedence-climbing parser written from the statement;
(2) every unary/binary combination; (3) all typed expression trees up to
3/4 operators over representatives of every precedence class, rendered with
minimal and with full parentheses; (4) exact arithmetic on all ordered pairs
of a 45-element int set (and mixed with decimals); (5) every `is [not] P`
predicate form and every `not` variant of the word operators on a value pool
of every kind; (6) short-circuit evaluation observed through a log.
Every program runs through Interpreter.interpret and is compared with the
reference evaluator (mc/ref/refeval.py).
"""
import itertools
import time

from mc import core
from mc.ref import refeval as E
from mc.ref import harness as H

PID = "C02"


def L(v):
    return ("lit", v)


OPERANDS = [0, 1, -2, 3, 1.5, True, False, None, "a", [1]]
QUICK_OPERANDS = [0, 3, -2, 1.5, True, None, "a"]
BINOPS = ["+", "-", "*", "/", "%", "==", "!=", "<>", "<", "<=", ">", ">=",
          "is", "is not", "and", "or"]
PREC = {"or": 1, "and": 2}
for _o in ("==", "!=", "<>", "<", "<=", ">", ">=", "is", "is not"):
    PREC[_o] = 4
for _o in "+-":
    PREC[_o] = 5
for _o in "*/%":
    PREC[_o] = 6


def leaf(v):
    if isinstance(v, list):
        return ("list", [leaf(x) for x in v])
    if isinstance(v, tuple) and v[0] == "set":
        return ("set", [leaf(x) for x in v[1]])
    return L(v)


def ref_parse(tokens):
    """independent precedence-climbing parser for flat operand/operator
    token lists: or < and < comparison (chains) < additive < multiplicative;
    all left-associative"""
    pos = [0]

    def peek():
        return tokens[pos[0]] if pos[0] < len(tokens) else None

    def nxt():
        t = tokens[pos[0]]
        pos[0] += 1
        return t

    def p_or():
        items = [p_and()]
        while peek() == "or":
            nxt()
            items.append(p_and())
        return items[0] if len(items) == 1 else ("or", items)

    def p_and():
        items = [p_cmp()]
        while peek() == "and":
            nxt()
            items.append(p_cmp())
        return items[0] if len(items) == 1 else ("and", items)

    def p_cmp():
        first = p_add()
        chain = [first]
        while isinstance(peek(), str) and PREC.get(peek()) == 4:
            chain.append(nxt())
            chain.append(p_add())
        return first if len(chain) == 1 else ("cmp", chain)

    def p_add():
        e = p_mul()
        while isinstance(peek(), str) and peek() in ("+", "-"):
            op = nxt()
            e = ("bin", op, e, p_mul())
        return e

    def p_mul():
        e = nxt()
        while isinstance(peek(), str) and peek() in ("*", "/", "%"):
            op = nxt()
            e = ("bin", op, e, nxt())
        return e

    r = p_or()
    assert pos[0] == len(tokens)
    return r


def flat_text(tokens):
    return " ".join(t if isinstance(t, str) else E.render(t)
                    for t in tokens)


def judge(agg, what, ast, src=None, sig=None, full=False):
    """compare implementation and reference on one program"""
    if src is None:
        src = E.render(ast, full)
    m = E.Machine()
    ref = m.run(ast)
    agg.count("steps")
    if ref[0] == "unspec":
        agg.count("unspecified")
        agg.cls((what, "unspec"))
        # the implementation must still not crash or hang
        got, logs = H.run_impl_value(src)
        if got[0] in ("host", "hang", "syn"):
            agg.violation({"part": what, "kind": got[0]},
                          {"src": src, "what": what},
                          "value or language error", list(got),
                          size=len(src))
        return
    got, logs = H.run_impl_value(src)
    agg.cls((what, ref[0], got[0]))
    ok = got[0] == ref[0] and H.same(ref[1], got[1]) and H.same(m.log, logs)
    if not ok:
        s = {"part": what}
        s.update(sig or {})
        agg.violation(s, {"src": src, "what": what,
                          "_expected": [list(ref), m.log]},
                      [list(ref), m.log], [list(got), logs], size=len(src))


# ---- part 1: operator pairs ------------------------------------------------
def explore_pairs(chunk):
    agg = core.Agg()
    ops = chunk["operands"]
    for (o1, o2) in chunk["pairs"]:
        for a, b, c in itertools.product(ops, repeat=3):
            toks = [leaf(a), o1, leaf(b), o2, leaf(c)]
            ast = ref_parse(list(toks))
            judge(agg, "pair", ast, flat_text(toks),
                  {"op1": o1, "op2": o2})
        agg.count("cases")
        agg.sample({"flat": flat_text([leaf(3), o1, leaf(-2), o2, leaf(1.5)]),
                    "grouping": E.render(ref_parse(
                        [leaf(3), o1, leaf(-2), o2, leaf(1.5)]), True)}, 3)
    return agg


# ---- part 1b: one operator, every operand pair of a wide pool ---------------
WIDE = [0, 1, 2, 10, -2, -1, 1.5, 2.0, -0.5, True, False, None, "", "a",
        "ab", "b", "10", "2", [], [1], [2], [10], [-2], [-1], [1, 0], [1, 2],
        [1.0], [[1]], ["a"], [None],
        # sets, and sets whose elements are sets (1 next to 1.0 inside)
        ("set", [1, 2]), ("set", [1, 2.0]), ("set", []),
        ("set", [("set", [1, 2.0]), ("set", [3])]), ("set", [[1], "a"])]


def explore_wide(chunk):
    """a op b for one operator and every ordered pair of the wide pool
    (NULL next to collections, lists of different lengths and digit counts,
    strings that look like numbers ...), plus the chain a op b op c on the
    diagonal pairs"""
    agg = core.Agg()
    for op in chunk["ops"]:
        for a, b in itertools.product(WIDE, repeat=2):
            x, y = leaf(a), leaf(b)
            if op in ("in", "notin"):
                ast = (op, x, y)
            elif op in PREC and PREC[op] == 4:
                ast = ("cmp", [x, op, y])
            elif op in ("and", "or"):
                ast = (op, [x, y])
            else:
                ast = ("bin", op, x, y)
            judge(agg, "wide", ast, sig={"op": op})
        agg.count("cases")
    return agg


# ---- part 2: unary / binary ------------------------------------------------
def explore_unary(chunk):
    agg = core.Agg()
    nums = [0, 3, -2, 1.5, None]
    bools = [True, False, None, 1]
    for op in chunk["ops"]:
        if op in ("and", "or"):
            for a, b in itertools.product(bools, repeat=2):
                x, y = leaf(a), leaf(b)
                node = (op, [x, y])
                for ast in (("not", node), (op, [("not", x), y]),
                            (op, [x, ("not", y)]),
                            ("not", (op, [("not", x), ("not", y)])),
                            ("not", ("not", node))):
                    judge(agg, "unary", ast, sig={"op": op})
                    judge(agg, "unary-full", ast, sig={"op": op}, full=True)
        else:
            for a, b in itertools.product(nums, repeat=2):
                x, y = leaf(a), leaf(b)
                if op in PREC and PREC[op] == 4:
                    node = ("cmp", [x, op, y])
                    variants = [("not", node),
                                ("cmp", [("neg", x), op, y]),
                                ("cmp", [x, op, ("neg", y)]),
                                ("not", ("cmp", [("neg", x), op,
                                                 ("neg", y)]))]
                else:
                    node = ("bin", op, x, y)
                    variants = [("neg", node),
                                ("bin", op, ("neg", x), y),
                                ("bin", op, x, ("neg", y)),
                                ("neg", ("bin", op, ("neg", x),
                                         ("neg", y))),
                                ("neg", ("neg", node))]
                for ast in variants:
                    judge(agg, "unary", ast, sig={"op": op})
                    judge(agg, "unary-full", ast, sig={"op": op}, full=True)
        agg.count("cases")
    return agg


# ---- part 3: typed trees ---------------------------------------------------
NUM_LEAVES = [2, 3, -1, 1.5]
BOOL_LEAVES = [True, False]


def trees(tp, nops, memo={}):
    """all typed expression tree *shapes* (leaves are ('N',)/('B',)) of type
    tp ('N' numeric / 'B' boolean) with exactly nops operators"""
    key = (tp, nops)
    if key in memo:
        return memo[key]
    out = []
    if nops == 0:
        out = [(tp,)]
    else:
        if tp == "N":
            for op in ("+", "-", "*", "/"):
                for k in range(nops):
                    for l in trees("N", k):
                        for r in trees("N", nops - 1 - k):
                            out.append(("bin", op, l, r))
            for s in trees("N", nops - 1):
                out.append(("neg", s))
        else:
            for op in ("and", "or"):
                for k in range(nops):
                    for l in trees("B", k):
                        for r in trees("B", nops - 1 - k):
                            out.append((op, [l, r]))
            for s in trees("B", nops - 1):
                out.append(("not", s))
            for op in ("<", "=="):
                for k in range(nops):
                    for l in trees("N", k):
                        for r in trees("N", nops - 1 - k):
                            out.append(("cmp", [l, op, r]))
            for k in range(nops):
                for l in trees("B", k):
                    for r in trees("B", nops - 1 - k):
                        out.append(("cmp", [l, "==", r]))
    memo[key] = out
    return out


def fill(shape, leaves_n, leaves_b, counter):
    t = shape[0]
    if t == "N":
        counter[0] += 1
        return leaf(leaves_n[counter[0] % len(leaves_n)])
    if t == "B":
        counter[0] += 1
        return leaf(leaves_b[counter[0] % len(leaves_b)])
    if t == "bin":
        return ("bin", shape[1], fill(shape[2], leaves_n, leaves_b, counter),
                fill(shape[3], leaves_n, leaves_b, counter))
    if t in ("neg", "not"):
        return (t, fill(shape[1], leaves_n, leaves_b, counter))
    if t in ("and", "or"):
        return (t, [fill(x, leaves_n, leaves_b, counter) for x in shape[1]])
    if t == "cmp":
        return ("cmp", [x if isinstance(x, str)
                        else fill(x, leaves_n, leaves_b, counter)
                        for x in shape[1]])
    raise TypeError(shape)


def flatten_assoc(ast):
    """and/or nodes with a left child of the same kind are one n-ary node
    in the flat text (left associative)"""
    t = ast[0]
    if t in ("and", "or"):
        items = [flatten_assoc(x) for x in ast[1]]
        if items[0][0] == t:
            items = items[0][1] + items[1:]
        return (t, items)
    if t == "bin":
        return ("bin", ast[1], flatten_assoc(ast[2]), flatten_assoc(ast[3]))
    if t in ("neg", "not"):
        return (t, flatten_assoc(ast[1]))
    if t == "cmp":
        return ("cmp", [x if isinstance(x, str) else flatten_assoc(x)
                        for x in ast[1]])
    return ast


def explore_trees(chunk):
    agg = core.Agg()
    for shape in chunk["shapes"]:
        for rot in range(chunk["rotations"]):
            ast = flatten_assoc(fill(shape, NUM_LEAVES[rot:] +
                                     NUM_LEAVES[:rot],
                                     BOOL_LEAVES[rot % 2:] +
                                     BOOL_LEAVES[:rot % 2], [rot]))
            judge(agg, "tree", ast)
            judge(agg, "tree-full", ast, full=True)
        agg.count("cases")
    return agg


# ---- part 4: exact arithmetic ----------------------------------------------
INTS = sorted({s * v for v in (0, 1, 2, 3, 7, 10, 2 ** 31, 2 ** 31 - 1,
                               2 ** 31 + 1, 2 ** 53, 2 ** 53 + 1,
                               2 ** 63 - 1, 2 ** 63, 2 ** 64 + 1, 10 ** 30,
                               3 ** 40, 2 ** 53 - 1, 6, 5, 9, 1000003,
                               10 ** 18 + 9, 2 ** 100)
               for s in (1, -1)})
DECS = [0.5, -2.5, 3.0, 1e10, 0.1, -0.0]


def explore_exact(chunk):
    agg = core.Agg()
    for a in chunk["ints"]:
        for b in INTS:
            for op in "+-*/%":
                judge(agg, "exact", ("bin", op, L(a), L(b)),
                      sig={"op": op})
        for d in DECS:
            for op in "+-*/%":
                if abs(a) < 2 ** 53:
                    judge(agg, "mixed", ("bin", op, L(a), L(d)),
                          sig={"op": op})
                    judge(agg, "mixed", ("bin", op, L(d), L(a)),
                          sig={"op": op})
        agg.count("cases")
    return agg


# ---- part 5: predicates -----------------------------------------------------
PRED_FORMS = [
    "empty", "zero", "negative", "numerical", "alphanumerical",
    "numerical min_len 1", "numerical max_len 2", "numerical exact_len 2",
    "alphanumerical min_len 2 max_len 3", "date", "date with hour", "time",
    "string", "int", "decimal", "boolean", "pattern", "None", "func",
    "input", "output", "list", "set", "map", "object", "node"]
WORD_FORMS = [("starts with", "starts not with"),
              ("ends with", "ends not with"),
              ("contains", "contains not"),
              ("matches", "matches not"),
              ("in", "not in"), ("is in", "is not in")]
PRED_POOL = [
    "NULL", "TRUE", "FALSE", "0", "1", "-1", "12", "0.0", "1.5", "-2.5",
    "''", "'a'", "'12'", "'ab1'", "'20200101'", "'2020010112'", "'1200'",
    "[]", "[1]", "<<>>", "<< 1 >>", "<<<>>>", "<<< 1 => 2 >>>", "<**>",
    "<*a = 1*>", "//a//", "fn(x) x", "date('20200101')", "str_input('x')",
    "str_output()", "parse('1')", "'abc'", "['a', 'b']", "<< 'a' >>",
    "<<< 'a' => 1 >>>"]


def run_src(src):
    return H.run_impl_value(src)[0]


# what each pool value is: (kind, python value or None)
POOL_KINDS = {
    "NULL": ("null", None), "TRUE": ("boolean", True),
    "FALSE": ("boolean", False), "0": ("int", 0), "1": ("int", 1),
    "-1": ("int", -1), "12": ("int", 12), "0.0": ("decimal", 0.0),
    "1.5": ("decimal", 1.5), "-2.5": ("decimal", -2.5), "''": ("string", ""),
    "'a'": ("string", "a"), "'12'": ("string", "12"),
    "'ab1'": ("string", "ab1"), "'20200101'": ("string", "20200101"),
    "'2020010112'": ("string", "2020010112"), "'1200'": ("string", "1200"),
    "[]": ("list", []), "[1]": ("list", [1]), "<<>>": ("set", []),
    "<< 1 >>": ("set", [1]), "<<<>>>": ("map", []),
    "<<< 1 => 2 >>>": ("map", [1]), "<**>": ("object", None),
    "<*a = 1*>": ("object", None), "//a//": ("pattern", None),
    "fn(x) x": ("func", None), "date('20200101')": ("date", None),
    "parse('1')": ("node", None), "'abc'": ("string", "abc"),
    "['a', 'b']": ("list", ["a", "b"]), "<< 'a' >>": ("set", ["a"]),
    "<<< 'a' => 1 >>>": ("map", ["a"]),
}
TYPE_PREDS = ("string", "int", "decimal", "boolean", "pattern", "func",
              "input", "output", "list", "set", "map", "object", "node")


def pred_meaning(p, x):
    """what `x is p` means where the documentation pins it: True / False /
    'not-true' (FALSE or a runtime error, but never TRUE) / None (open)"""
    import re
    if x not in POOL_KINDS:
        return None
    k, v = POOL_KINDS[x]
    num = k in ("int", "decimal")
    if p in TYPE_PREDS:
        return k == p
    if p == "zero":
        return (v == 0) if num else "not-true"
    if p == "negative":
        return (v < 0) if num else "not-true"
    if p == "empty":
        if k == "null":
            return True
        if num:
            return False
        if k in ("string", "list", "set", "map"):
            return len(v) == 0
        return None
    m = re.fullmatch(r"(numerical|alphanumerical)"
                     r"(?: min_len (\d+))?(?: max_len (\d+))?"
                     r"(?: exact_len (\d+))?", p)
    if m:
        if k != "string":
            return None      # the operator form applies to string(x)
        if v == "" and not (m.group(2) or m.group(4)):
            return None      # the operator form without min_len: open
        lo = int(m.group(2) or 1)
        hi = int(m.group(3) or 99999)
        if m.group(4):
            lo = hi = int(m.group(4))
        cls = "[0-9]" if m.group(1) == "numerical" else "[a-zA-Z0-9]"
        return bool(re.fullmatch(cls + "{%d,%d}" % (lo, hi), v))
    return None


def explore_preds(chunk):
    agg = core.Agg()
    for x in chunk["values"]:
        for p in PRED_FORMS:
            pos = run_src(f"def v = {x}; v is {p}")
            neg = run_src(f"def v = {x}; v is not {p}")
            agg.count("steps", 2)
            agg.cls(("pred", p, pos[0]))
            check_negation(agg, f"is {p}", x, None, pos, neg)
            want = pred_meaning(p, x)
            if want is not None:
                ok = (pos[0] == "value" and pos[1] is want) \
                    if want != "not-true" else \
                    (pos[0] == "rt" or (pos[0] == "value"
                                        and pos[1] is False))
                if not ok:
                    agg.violation(
                        {"part": "predicate-meaning", "form": f"is {p}"},
                        {"what": "predmean", "src": f"def v = {x}; v is {p}",
                         "want": want}, want, list(pos),
                        size=len(x) + len(p))
        for y in PRED_POOL[::3] + ["'a'", "'1'", "//a.*//", "[1]"]:
            for (w, wn) in WORD_FORMS:
                pos = run_src(f"def v = {x}; def w = {y}; v {w} w")
                neg = run_src(f"def v = {x}; def w = {y}; v {wn} w")
                agg.count("steps", 2)
                agg.cls(("word", w, pos[0]))
                check_negation(agg, w, x, y, pos, neg)
        agg.count("cases")
    return agg


NUM_LITS = ["2", "-2", "2.5", "-2.5", "0", "-0.5", "-12", "-1_0",
            "-0x1F", "-7.0"]


def explore_literal_preds(chunk):
    """a (signed) numeric literal directly in front of a predicate or word
    operator behaves like the same value held in a variable"""
    agg = core.Agg()
    for x in chunk["values"]:
        for p in PRED_FORMS:
            for neg in ("", "not "):
                lit = run_src(f"{x} is {neg}{p}")
                var = run_src(f"def v = {x}; v is {neg}{p}")
                agg.count("steps", 2)
                agg.cls(("litpred", p, lit[0]))
                if not (lit[0] == var[0] and H.same(var[1], lit[1])):
                    agg.violation(
                        {"part": "literal-predicate", "form": f"is {neg}{p}"},
                        {"what": "litpred", "src": f"{x} is {neg}{p}",
                         "via_variable": f"def v = {x}; v is {neg}{p}"},
                        list(var), list(lit), size=len(x) + len(p))
        for y in ("[-2.5, 2]", "<< -2, 2.5 >>", "'-2.5'", "[1]"):
            for w in ("in", "not in", "is in", "is not in"):
                lit = run_src(f"{x} {w} {y}")
                var = run_src(f"def v = {x}; v {w} {y}")
                agg.count("steps", 2)
                if not (lit[0] == var[0] and H.same(var[1], lit[1])):
                    agg.violation(
                        {"part": "literal-predicate", "form": w},
                        {"what": "litpred", "src": f"{x} {w} {y}",
                         "via_variable": f"def v = {x}; v {w} {y}"},
                        list(var), list(lit), size=len(x) + len(y))
        agg.count("cases")
    return agg


def check_negation(agg, form, x, y, pos, neg):
    ok = False
    if pos[0] == "value" and neg[0] == "value":
        ok = isinstance(pos[1], bool) and isinstance(neg[1], bool) and \
            pos[1] == (not neg[1])
    elif pos[0] == "rt" and neg[0] == "rt":
        ok = H.same(pos[1], neg[1])
    if not ok:
        agg.violation({"part": "negation", "form": form},
                      {"what": "negation", "form": form, "x": x, "y": y},
                      ["x is P", list(pos)], ["x is not P", list(neg)],
                      size=len(x) + len(y or ""))


# ---- part 6: short circuit ---------------------------------------------------
def explore_short(chunk):
    agg = core.Agg()
    vals = [True, False, 1, None]
    for shape in chunk["shapes"]:
        n = count_leaves(shape)
        for combo in itertools.product(vals, repeat=n):
            it = iter(enumerate(combo))
            ast = fill_log(shape, it)
            judge(agg, "short-circuit", ast)
        agg.count("cases")
    return agg


def count_leaves(s):
    if s[0] == "X":
        return 1
    if s[0] == "not":
        return count_leaves(s[1])
    return sum(count_leaves(x) for x in s[1])


def fill_log(s, it):
    if s[0] == "X":
        k, v = next(it)
        return ("seq", [("log", L(k)), L(v)])
    if s[0] == "not":
        return ("not", fill_log(s[1], it))
    return (s[0], [fill_log(x, it) for x in s[1]])


def bool_shapes(nops):
    if nops == 0:
        return [("X",)]
    out = []
    for op in ("and", "or"):
        for k in range(nops):
            for l in bool_shapes(k):
                for r in bool_shapes(nops - 1 - k):
                    out.append((op, [l, r]))
        if nops >= 2:
            for l in bool_shapes(0):
                out.append((op, [l, l, l]))
    for s in bool_shapes(nops - 1):
        out.append(("not", s))
    return out


def replay(case, verbose=False):
    if case.get("what") == "litpred":
        lit = run_src(case["src"])
        var = run_src(case["via_variable"])
        if verbose:
            print(case["src"], lit, case["via_variable"], var)
        return not (lit[0] == var[0] and H.same(var[1], lit[1]))
    if case.get("what") == "predmean":
        pos = run_src(case["src"])
        want = case["want"]
        if verbose:
            print(case["src"], "->", pos, "meaning:", want)
        if want == "not-true":
            return not (pos[0] == "rt" or (pos[0] == "value"
                                           and pos[1] is False))
        return not (pos[0] == "value" and pos[1] is want)
    if case.get("what") == "negation":
        a = core.Agg()
        x, y, form = case["x"], case["y"], case["form"]
        if y is None:
            p = form[3:]
            pos = run_src(f"def v = {x}; v is {p}")
            neg = run_src(f"def v = {x}; v is not {p}")
        else:
            wn = dict(WORD_FORMS)[form]
            pos = run_src(f"def v = {x}; def w = {y}; v {form} w")
            neg = run_src(f"def v = {x}; def w = {y}; v {wn} w")
        check_negation(a, form, x, y, pos, neg)
        if verbose:
            print(form, x, y, pos, neg)
        return bool(a.viol)
    # source-level replay: re-run the text and compare with the recorded
    # reference expectation
    got, logs = H.run_impl_value(case["src"])
    if verbose:
        print(case["src"], "->", got, logs)
        print("expected:", case.get("_expected"))
    if "_expected" not in case:
        return got[0] in ("host", "hang", "syn")
    return _differs(case, got, logs)


def _differs(case, got, logs):
    exp = case.get("_expected")
    if exp is None:
        return True
    return not (got[0] == exp[0][0] and H.same(_t(exp[0][1]), got[1])
                and H.same(_t(exp[1]), logs))


def _t(x):
    if isinstance(x, list) and len(x) == 3 and x[0] in ("mod", "fmod"):
        return tuple(x)
    if isinstance(x, list) and len(x) == 2 and x[0] in ("set", "map") and \
            isinstance(x[1], list):
        return (x[0], [_t(e) if x[0] == "set" else (_t(e[0]), _t(e[1]))
                       for e in x[1]])
    if isinstance(x, list):
        return [_t(e) for e in x]
    return x


def main(tier, seed):
    t0 = time.time()
    ops = QUICK_OPERANDS if tier == "quick" else OPERANDS
    pairs = [(a, b) for a in BINOPS for b in BINOPS]
    agg = core.pmap(explore_pairs, [{"pairs": c, "operands": ops}
                                    for c in core.chunked(pairs,
                                                          core.NPROC * 4)])
    agg.merge(core.pmap(explore_unary, [{"ops": [o]} for o in BINOPS]))
    agg.merge(core.pmap(explore_wide, [{"ops": [o]}
                                       for o in BINOPS + ["in", "notin"]]))
    maxops = 3 if tier == "quick" else 4
    shapes = []
    for n in range(1, maxops + 1):
        shapes += trees("B", n) + trees("N", n)
    agg.n["tree_shapes"] = len(shapes)
    agg.merge(core.pmap(explore_trees, [
        {"shapes": c, "rotations": 2 if tier == "quick" else 3}
        for c in core.chunked(shapes, core.NPROC * 4)]))
    agg.merge(core.pmap(explore_exact, [{"ints": c} for c in
                                        core.chunked(INTS, core.NPROC * 2)]))
    agg.merge(core.pmap(explore_preds, [{"values": c} for c in
                                        core.chunked(PRED_POOL,
                                                     core.NPROC * 2)]))
    agg.merge(core.pmap(explore_literal_preds, [{"values": [v]}
                                                for v in NUM_LITS]))
    bshapes = []
    for n in range(1, 4 if tier == "quick" else 5):
        bshapes += bool_shapes(n)
    agg.merge(core.pmap(explore_short, [{"shapes": c} for c in
                                        core.chunked(bshapes,
                                                     core.NPROC * 2)]))
    core.finish(
        PID, tier, seed, agg, t0,
        rule=(f"all {len(pairs)} ordered operator pairs x all triples over "
              f"{len(ops)} operands (flat text, grouping from an "
              f"independent precedence-climbing parser); every operator "
              f"incl. in/not in x every ordered pair of {len(WIDE)} wide-pool "
              f"operands; unary/binary "
              f"combinations for {len(BINOPS)} operators; all "
              f"{len(shapes)} typed tree shapes with <= {maxops} operators "
              f"(minimal and full parentheses); all pairs of {len(INTS)} "
              f"ints (|n| up to 2^100) x + - * / % plus int/decimal mixes; "
              f"{len(PRED_FORMS)} `is [not] P` forms and "
              f"{len(WORD_FORMS)} word-operator pairs x {len(PRED_POOL)} "
              f"values; {len(NUM_LITS)} signed numeric literals directly "
              f"before every predicate form vs the same value in a "
              f"variable; {len(bshapes)} and/or/not shapes x all leaf "
              f"assignments with a log"),
        exhaustive=True,
        assumptions=["cases the statement leaves open (NULL with a "
                     "collection under '-', cross-kind order, remainder "
                     "sign used as an operand ...) are executed but only "
                     "checked for host exceptions/hangs (counter "
                     "'unspecified')",
                     "membership `in` is placed explicitly with "
                     "parentheses: the statement does not give its "
                     "precedence"],
        replay_fn=replay,
    )
