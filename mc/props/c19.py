"""C19 Collection and numeric library functions satisfy their defining laws.

E1: all lists up to length 3/4 over a 7-element universe (1 vs 1.0, mixed
kinds), all permutations of all multisets up to size 5, all pairs of subsets
/ short lists for the set algebra, all pairs of a 27-element big-int set, all
32-bit boundary word pairs and shift counts 0..40; every result compared with
a textbook definition written in Python.
"""
import functools
import itertools
import math
import time

from mc import core
from mc.ref import refvalue as R

PID = "C19"

U = [1, 1.0, 2, 2.5, -1, "a", "b"]
NUMS = [1, 2, 2.0, 3, 5]
I80 = sorted({s * v for v in (0, 1, 2, 3, 6, 12, 18, 2 ** 31, 2 ** 53 + 1,
                              2 ** 63, 2 ** 80, 2 ** 80 - 1, 3 ** 40, 7, 10)
              for s in (1, -1)})
W = [0, 1, 2, 5, 6, 0x7FFFFFFF, 0x80000000, 0x80000001, 0xAAAAAAAA,
     0x55555555, 0xFFFFFFFE, 0xFFFFFFFF]
M32 = 0xFFFFFFFF

PRELUDE = ("require List; require Set; require Stat; require Math; "
           "require Bitwise; require Core;")
FORMS = {
    "union": "Set->union(a, b)", "intersection": "Set->intersection(a, b)",
    "diff": "Set->diff(a, b)", "symmetric_diff": "Set->symmetric_diff(a, b)",
    "unique": "List->unique(a)", "reverse": "List->reverse(a)",
    "flatten": "List->flatten(a)", "zip": "zip(a, b)",
    "enumerate": "enumerate(a)", "chunks": "chunks(a, n)",
    "pairs": "pairs(a)", "grouped": "List->grouped(a)",
    "grouped_key": "List->grouped(a, key = fn(x) x[0])",
    "grouped_cmp": "List->grouped(a, cmp = fn(x, y) compare(x[0], y[0]))",
    "unique_key": "List->unique(a, key = fn(x) x[0])",
    "filter_key2": "List->filter(a, fn(k) k > 1, key = fn(x) x[0])",
    "min_key": "min(a, key = fn(x) x[0])[0]",
    "max_key": "max(a, key = fn(x) x[0])[0]",
    "min2_key": "min(a[0], a[-1], key = fn(x) x[0])[0]",
    "filter": "List->filter(a, fn(x) x is int)",
    "filter_key": "List->filter(a, fn(x) x > 1, key = fn(x) length(string(x)))",
    "map_list": "List->map_list(a, fn(x) [x])",
    "reduce": "List->reduce(a, fn(x, y) [x, y])",
    "sum": "sum(a)", "prod": "List->prod(a)",
    "mean": "Stat->mean(a)", "median": "Stat->median(a)",
    "median_low": "Stat->median_low(a)",
    "median_high": "Stat->median_high(a)",
    "min": "min(a)", "max": "max(a)",
    "range1": "range(a)", "range2": "range(a, b)",
    "range3": "range(a, b, n)", "interval1": "interval(a)",
    "interval2": "interval(a, b)",
    "pow": "Math->pow(a, b)", "gcd": "Math->gcd(a, b)",
    "lcm": "Math->lcm(a, b)", "abs": "Math->abs(a)", "sign": "Math->sign(a)",
    "bit_and": "Bitwise->bit_and_32(a, b)",
    "bit_or": "Bitwise->bit_or_32(a, b)",
    "bit_xor": "Bitwise->bit_xor_32(a, b)",
    "bit_not": "Bitwise->bit_not_32(a)",
    "shl": "Bitwise->bit_shift_left(a, n)",
    "shr": "Bitwise->bit_shift_right(a, n)",
    "rol": "Bitwise->bit_rotate_left_32(a, n)",
    "ror": "Bitwise->bit_rotate_right_32(a, n)",
    "permutations": "List->permutations(a)",
    "first_last": "[List->first(a), List->last(a), List->rest(a)]",
    "append_all": "do def k = a + []; List->append_all(k, b); k end",
}
_F = {}


def forms():
    if "f" not in _F:
        _F["f"] = core.Forms(FORMS, prelude=PRELUDE)
    return _F["f"]


def run(name, **kw):
    core.set_fuel(200000, 200000)
    try:
        return forms().ev(name, **{k: core.to_value(v)
                                   for k, v in kw.items()})
    finally:
        core.set_fuel(10 ** 12, 10 ** 12)


class Expect:
    """how to compare: 'strict' (same values and kinds), 'equal' (value
    equality of the language: 1 == 1.0, sets unordered), 'rt' (language
    error)"""


def want_strict(agg, name, kw, exp):
    r = run(name, **kw)
    agg.count("steps")
    ok = r[0] == "value" and core.strict_eq(core.from_value(r[1]), exp)
    agg.cls((name, r[0]))
    if not ok:
        agg.violation({"fn": name, "cmp": "strict"},
                      {"fn": name, "args": kw, "cmp": "strict", "_exp": exp},
                      exp, core.show_raw(r), size=len(repr(kw)))


def want_equal(agg, name, kw, exp):
    r = run(name, **kw)
    agg.count("steps")
    ok = r[0] == "value" and R.equal(_plain(core.from_value(r[1])), exp) \
        and (R.kind(_plain(core.from_value(r[1]))) == R.kind(exp)
             or (R.numeric(exp) and R.numeric(core.from_value(r[1]))))
    agg.cls((name, r[0]))
    if not ok:
        agg.violation({"fn": name, "cmp": "equal"},
                      {"fn": name, "args": kw, "cmp": "equal", "_exp": exp},
                      exp, core.show_raw(r), size=len(repr(kw)))


def want_error(agg, name, kw):
    r = run(name, **kw)
    agg.count("steps")
    agg.cls((name, r[0]))
    if r[0] != "rt":
        agg.violation({"fn": name, "cmp": "error"},
                      {"fn": name, "args": kw, "cmp": "error"},
                      "language error", core.show_raw(r),
                      size=len(repr(kw)))


def _plain(x):
    return x


def dedupe_first(lst):
    out = []
    for x in lst:
        if not any(R.equal(x, y) for y in out):
            out.append(x)
    return out


def numeric(lst):
    return all(R.numeric(x) for x in lst)


def pysum(lst):
    t = 0
    dec = False
    for x in lst:
        t += x
        dec = dec or isinstance(x, float)
    return float(t) if dec else t


def check_list(agg, lst):
    want_strict(agg, "unique", {"a": lst}, dedupe_first(lst))
    want_strict(agg, "reverse", {"a": lst}, lst[::-1])
    want_strict(agg, "enumerate", {"a": lst},
                [[i, x] for i, x in enumerate(lst)])
    want_strict(agg, "pairs", {"a": lst},
                [[lst[i], lst[i + 1]] for i in range(len(lst) - 1)])
    want_strict(agg, "map_list", {"a": lst}, [[x] for x in lst])
    want_strict(agg, "filter", {"a": lst},
                [x for x in lst if isinstance(x, int)])
    want_strict(agg, "filter_key", {"a": lst},
                [x for x in lst if len(render(x)) > 1])
    groups = []
    for x in lst:
        if groups and R.equal(groups[-1][0], x):
            groups[-1].append(x)
        elif groups and not R.comparable(groups[-1][0], x):
            groups.append([x])
        else:
            groups.append([x])
    if all(R.comparable(a, b) for a, b in zip(lst, lst[1:])):
        want_strict(agg, "grouped", {"a": lst}, groups)
    if lst:
        red = functools.reduce(lambda x, y: [x, y], lst)
        want_strict(agg, "reduce", {"a": lst}, red)
        want_strict(agg, "first_last", {"a": lst},
                    [lst[0], lst[-1], lst[1:]])
    else:
        want_error(agg, "reduce", {"a": lst})
    for n in (1, 2, 3, 5):
        exp = [lst[i:i + n] for i in range(0, len(lst), n)]
        if lst:
            want_strict(agg, "chunks", {"a": lst, "n": n}, exp)
    if numeric(lst):
        want_strict(agg, "sum", {"a": lst}, pysum(lst))
        if lst:
            p = functools.reduce(lambda x, y: x * y, lst)
            want_strict(agg, "prod", {"a": lst}, p)
    # flatten one level: wrap some elements
    nested = [[x, x] if i % 2 == 0 else x for i, x in enumerate(lst)]
    flat = []
    for i, x in enumerate(lst):
        flat += [x, x] if i % 2 == 0 else [x]
    want_strict(agg, "flatten", {"a": nested}, flat)
    want_strict(agg, "flatten", {"a": [nested]}, nested)


def render(x):
    """text the language's string() gives for an atom of U"""
    if isinstance(x, str):
        return x
    if isinstance(x, float):
        return repr(x)
    return str(x)


U2 = [1, None, [1, 2], ("set", [2, 3]), "a", [], ("map", [(1, 2)])]


def check_structural(agg, lst):
    """functions that only rearrange elements must treat every element as
    opaque: nested lists, sets, maps and NULL included"""
    want_strict(agg, "reverse", {"a": lst}, lst[::-1])
    want_strict(agg, "enumerate", {"a": lst},
                [[i, x] for i, x in enumerate(lst)])
    want_strict(agg, "pairs", {"a": lst},
                [[lst[i], lst[i + 1]] for i in range(len(lst) - 1)])
    want_strict(agg, "map_list", {"a": lst}, [[x] for x in lst])
    want_strict(agg, "zip", {"a": lst, "b": lst},
                [[x, x] for x in lst])
    want_strict(agg, "append_all", {"a": lst, "b": lst}, lst + lst)
    want_strict(agg, "unique", {"a": lst + lst}, dedupe_first(lst))
    if lst:
        want_strict(agg, "first_last", {"a": lst},
                    [lst[0], lst[-1], lst[1:]])
        want_strict(agg, "reduce", {"a": lst},
                    functools.reduce(lambda x, y: [x, y], lst))
        for n in (1, 2):
            want_strict(agg, "chunks", {"a": lst, "n": n},
                        [lst[i:i + n] for i in range(0, len(lst), n)])
    flat = []
    for x in lst:
        flat += x if isinstance(x, list) else [x]
    want_strict(agg, "flatten", {"a": lst}, flat)


def check_setops(agg, a, b):
    """a, b plain lists (used as lists and as sets)"""
    ea, eb = dedupe_first(a), dedupe_first(b)
    union = ("set", ea + [y for y in eb if not R.member(y, ea)])
    inter = ("set", [x for x in ea if R.member(x, eb)])
    diff = ("set", [x for x in ea if not R.member(x, eb)])
    diff2 = [y for y in eb if not R.member(y, ea)]
    sym = ("set", diff[1] + diff2)
    for (xa, xb) in ((a, b), (("set", a), ("set", b)), (a, ("set", b))):
        want_equal(agg, "union", {"a": xa, "b": xb}, union)
        want_equal(agg, "intersection", {"a": xa, "b": xb}, inter)
        want_equal(agg, "diff", {"a": xa, "b": xb}, diff)
        want_equal(agg, "symmetric_diff", {"a": xa, "b": xb}, sym)
    want_strict(agg, "zip", {"a": a, "b": b},
                [[x, y] for x, y in zip(a, b)])
    want_strict(agg, "append_all", {"a": a, "b": b}, a + b)


def check_stats(agg, ms):
    """ms: a sorted multiset (tuple) of numbers; all its permutations"""
    srt = sorted(ms)
    n = len(srt)
    mean = float(pysum(list(ms)))   # order independent for these values
    exp_min, exp_max = srt[0], srt[-1]
    lo, hi = srt[(n - 1) // 2], srt[n // 2]
    seen = set()
    for perm in itertools.permutations(ms):
        key = tuple((type(x).__name__, x) for x in perm)
        if key in seen:
            continue
        seen.add(key)
        lst = list(perm)
        want_equal(agg, "mean", {"a": lst}, pysum(lst) / n
                   if True else mean)
        if n % 2 == 1:
            want_equal(agg, "median", {"a": lst}, srt[n // 2])
        else:
            want_equal(agg, "median", {"a": lst}, (lo + hi) / 2.0)
        want_equal(agg, "median_low", {"a": lst}, lo)
        want_equal(agg, "median_high", {"a": lst}, hi)
        want_equal(agg, "min", {"a": lst}, exp_min)
        want_equal(agg, "max", {"a": lst}, exp_max)
        if n <= 4:
            # permutations returns every arrangement exactly once
            r = run("permutations", a=lst)
            agg.count("steps")
            ok = r[0] == "value"
            if ok:
                got = core.from_value(r[1])
                ok = len(got) == math.factorial(n) and \
                    sorted(map(repr, got)) == sorted(
                        repr(list(p)) for p in itertools.permutations(lst))
            if not ok:
                agg.violation({"fn": "permutations", "cmp": "multiset"},
                              {"fn": "permutations", "args": {"a": lst},
                               "cmp": "perms"}, "all arrangements",
                              core.show_raw(r), size=n)


KEYED = [[1, "a"], [2, "b"], [2, "c"], [1, "d"], [3, "e"]]


def check_keyed(agg, lst):
    """the functions that take a key function, on lists of [key, tag]
    pairs whose tags are all different"""
    groups = [list(g) for _, g in itertools.groupby(lst,
                                                    key=lambda x: x[0])]
    want_strict(agg, "grouped_key", {"a": lst}, groups)
    want_strict(agg, "grouped_cmp", {"a": lst}, groups)
    seen, uniq = set(), []
    for x in lst:
        if x[0] not in seen:
            seen.add(x[0])
            uniq.append(x)
    want_strict(agg, "unique_key", {"a": lst}, uniq)
    want_strict(agg, "filter_key2", {"a": lst}, [x for x in lst if x[0] > 1])
    if lst:
        want_strict(agg, "min_key", {"a": lst}, min(x[0] for x in lst))
        want_strict(agg, "max_key", {"a": lst}, max(x[0] for x in lst))
        want_strict(agg, "min2_key", {"a": lst}, min(lst[0][0], lst[-1][0]))


def explore_lists(chunk):
    agg = core.Agg()
    core.arm(3000)
    try:
        for lst in chunk.get("keyed", []):
            check_keyed(agg, lst)
            agg.count("cases")
        for lst in chunk["lists"]:
            check_list(agg, lst)
            agg.count("cases")
            if agg.n["cases"] % 200 == 1:
                agg.sample({"unique": lst, "expected": dedupe_first(lst)})
        for a, b in chunk["pairs"]:
            check_setops(agg, a, b)
            agg.count("cases")
        for ms in chunk["multisets"]:
            check_stats(agg, ms)
            agg.count("cases")
        for lst in chunk.get("nested", []):
            check_structural(agg, lst)
            agg.count("cases")
    finally:
        core.disarm()
    return agg


def explore_ints(chunk):
    agg = core.Agg()
    core.arm(3000)
    try:
        for a in chunk["ints"]:
            want_strict(agg, "abs", {"a": a}, abs(a))
            want_strict(agg, "sign", {"a": a}, (a > 0) - (a < 0))
            for b in I80:
                g = math.gcd(a, b)
                r = run("gcd", a=a, b=b)
                agg.count("steps")
                ok = r[0] == "value" and isinstance(
                    r[1], core.ckl.values.ValueInt) and \
                    abs(r[1].value) == g and \
                    (r[1].value == g or a < 0 or b < 0)
                agg.cls(("gcd", r[0]))
                if not ok:
                    agg.violation({"fn": "gcd", "cmp": "math"},
                                  {"fn": "gcd", "args": {"a": a, "b": b},
                                   "cmp": "gcd"}, g, core.show_raw(r),
                                  size=len(str(a)) + len(str(b)))
                if a != 0 and b != 0:
                    l = abs(a * b) // g
                    r = run("lcm", a=a, b=b)
                    agg.count("steps")
                    ok = r[0] == "value" and isinstance(
                        r[1], core.ckl.values.ValueInt) and \
                        abs(r[1].value) == l and \
                        (r[1].value == l or a < 0 or b < 0)
                    if not ok:
                        agg.violation(
                            {"fn": "lcm", "cmp": "math"},
                            {"fn": "lcm", "args": {"a": a, "b": b},
                             "cmp": "lcm"}, l, core.show_raw(r),
                            size=len(str(a)) + len(str(b)))
            if a >= 0 or True:
                for e in (0, 1, 2, 3, 5, 10, 17, 40, 64):
                    want_strict(agg, "pow", {"a": a, "b": e}, a ** e)
            agg.count("cases")
        for a in chunk["ranges"]:
            for b in range(-3, 5):
                want_strict(agg, "range2", {"a": a, "b": b},
                            list(range(a, b)))
                want_strict(agg, "interval2", {"a": a, "b": b},
                            list(range(a, b + 1)))
                for n in (-2, -1, 1, 2, 3):
                    want_strict(agg, "range3", {"a": a, "b": b, "n": n},
                                list(range(a, b, n)))
            want_strict(agg, "range1", {"a": a}, list(range(a)))
            want_strict(agg, "interval1", {"a": a}, list(range(1, a + 1)))
            agg.count("cases")
    finally:
        core.disarm()
    return agg


OUT_OF_RANGE = [-1, -2, -2 ** 31, 2 ** 32, 2 ** 32 + 5, 2 ** 40 + 3, -2 ** 40]


def check_masking(agg):
    """operands outside the 32-bit range: either rejected, or treated like
    their low 32 bits - in particular the same way for every shift count
    (counts 0 and 32 included)"""
    for a in OUT_OF_RANGE:
        for fn in ("rol", "ror"):
            for n in (0, 1, 31, 32, 33):
                r1 = run(fn, a=a, n=n)
                r2 = run(fn, a=a & M32, n=n)
                agg.count("steps", 2)
                same = r1[0] == "rt" or (
                    r1[0] == "value" and r2[0] == "value" and core.strict_eq(
                        core.from_value(r1[1]), core.from_value(r2[1])))
                if fn == "shr" and a < 0:
                    continue      # sign extension of a right shift: open
                if not same:
                    agg.violation(
                        {"fn": fn, "cmp": "masking"},
                        {"fn": fn, "args": {"a": a, "n": n},
                         "cmp": "masking"},
                        "the result for the low 32 bits, or an error",
                        core.show_raw(r1), size=n)


BIG_MEANS = [(2 ** 80, 1, -2 ** 80, 3), (2 ** 53 + 1, 1, 1, 1),
             (2 ** 60, 2 ** 60, 2), (10 ** 30, -10 ** 30, 7),
             (2 ** 53, 2 ** 53 + 2), (3 ** 40, 1)]


def check_big_means(agg):
    """the mean of exact ints: the exact sum divided by the count (rounded
    once), whatever the order of the elements"""
    from fractions import Fraction
    for ms in BIG_MEANS:
        exact = Fraction(sum(ms), len(ms))
        for perm in set(itertools.permutations(ms)):
            r = run("mean", a=list(perm))
            agg.count("steps")
            ok = r[0] == "value" and isinstance(
                core.from_value(r[1]), (int, float))
            if ok:
                got = core.from_value(r[1])
                tol = abs(float(exact)) * 2.0 ** -51
                ok = abs(Fraction(got) - exact) <= Fraction(tol) + 0
            if not ok:
                agg.violation({"fn": "mean", "cmp": "exact-sum"},
                              {"fn": "mean", "args": {"a": list(perm)},
                               "cmp": "bigmean"}, float(exact),
                              core.show_raw(r), size=len(perm))


def explore_words(chunk):
    agg = core.Agg()
    if chunk.get("extras"):
        check_masking(agg)
        check_big_means(agg)
        return agg
    for a in chunk["words"]:
        want_strict(agg, "bit_not", {"a": a}, M32 - a)
        for b in W:
            want_strict(agg, "bit_and", {"a": a, "b": b}, a & b)
            want_strict(agg, "bit_or", {"a": a, "b": b}, a | b)
            want_strict(agg, "bit_xor", {"a": a, "b": b}, a ^ b)
        for n in range(0, 41):
            want_strict(agg, "shl", {"a": a, "n": n}, (a << n) & M32)
            want_strict(agg, "shr", {"a": a, "n": n}, a >> n)
            k = n % 32
            want_strict(agg, "rol", {"a": a, "n": n},
                        ((a << k) | (a >> (32 - k))) & M32 if k else a)
            want_strict(agg, "ror", {"a": a, "n": n},
                        ((a >> k) | (a << (32 - k))) & M32 if k else a)
        agg.count("cases")
    return agg


def replay(case, verbose=False):
    agg = core.Agg()
    kw = {k: _fix(v) for k, v in case["args"].items()}
    fn = case["fn"]
    r = run(fn, **kw)
    if verbose:
        print(FORMS[fn], kw, "->", core.show_raw(r))
    # direct replay: the recorded expectation against a fresh run
    if "_exp" in case or case.get("cmp") == "error":
        a = core.Agg()
        if case["cmp"] == "strict":
            want_strict(a, fn, kw, _fix(case["_exp"]))
        elif case["cmp"] == "equal":
            want_equal(a, fn, kw, _fix(case["_exp"]))
        else:
            want_error(a, fn, kw)
        if verbose:
            print("expected:", case.get("_exp", "language error"))
        return bool(a.viol)
    if case.get("cmp") == "masking":
        a = core.Agg()
        check_masking(a)
        hit = [v for k, (sz, v) in a.viol.items()
               if v["case"]["args"] == case["args"]
               and v["case"]["fn"] == fn]
        return bool(hit)
    if case.get("cmp") == "bigmean":
        a = core.Agg()
        check_big_means(a)
        return bool(a.viol)
    # recompute by re-running the generating check on the arguments
    if fn in ("abs", "sign", "gcd", "lcm", "pow"):
        a = explore_ints({"ints": [kw["a"]], "ranges": []})
    elif fn in ("range1", "range2", "range3", "interval1", "interval2"):
        a = explore_ints({"ints": [], "ranges": [kw["a"]]})
    elif fn in ("bit_not", "bit_and", "bit_or", "bit_xor", "shl", "shr",
                "rol", "ror"):
        a = explore_words({"words": [kw["a"]]})
    elif fn in ("union", "intersection", "diff", "symmetric_diff", "zip",
                "append_all"):
        aa = kw["a"][1] if isinstance(kw["a"], tuple) else kw["a"]
        bb = kw["b"][1] if isinstance(kw["b"], tuple) else kw["b"]
        a = core.Agg()
        check_setops(a, aa, bb)
    elif fn in ("mean", "median", "median_low", "median_high", "min", "max",
                "permutations"):
        a = core.Agg()
        check_stats(a, tuple(kw["a"]))
    elif any(isinstance(x, (list, tuple)) or x is None
             for x in (kw.get("a") or [])) and fn != "flatten":
        a = core.Agg()
        check_structural(a, kw["a"] if fn != "unique"
                         else kw["a"][:len(kw["a"]) // 2])
    else:
        a = core.Agg()
        base = kw["a"]
        if fn == "flatten":
            base = [x[0] if isinstance(x, list) else x for x in
                    (base[0] if len(base) == 1 and isinstance(base[0], list)
                     and any(isinstance(y, list) for y in base[0])
                     else base)]
        check_list(a, base)
    hit = [v for k, (sz, v) in a.viol.items() if v["signature"]["fn"] == fn]
    if verbose:
        for v in hit:
            print(v)
    return bool(hit)


def _fix(x):
    if isinstance(x, list):
        if len(x) == 2 and x[0] == "set" and isinstance(x[1], list):
            return ("set", [_fix(e) for e in x[1]])
        return [_fix(e) for e in x]
    return x


def main(tier, seed):
    t0 = time.time()
    maxl = 3 if tier == "quick" else 4
    lists = [list(t) for n in range(maxl + 1)
             for t in itertools.product(U, repeat=n)]
    # numeric lists with zeros of both kinds (sums and products keep the
    # kind the operands define: a decimal anywhere makes a decimal)
    lists += [list(t) for n in range(1, maxl + 1)
              for t in itertools.product([0, 0.0, 2.5, 3, -0.0], repeat=n)]
    if tier == "thorough":
        lists += [list(t) for n in (5, 6)
                  for t in itertools.product([1, 2, 3], repeat=n)]
    short = [list(t) for n in range(3)
             for t in itertools.product(U, repeat=n)]
    pairs = [(a, b) for a in short for b in short]
    subsets = [list(c) for k in range(len(U) + 1)
               for c in itertools.combinations(U, k)]
    if tier == "thorough":
        pairs += [(a, b) for a in subsets for b in subsets]
    else:
        pairs += [(a, b) for a in subsets[::3] for b in subsets[::5]]
    multisets = [ms for k in range(1, 6)
                 for ms in itertools.combinations_with_replacement(NUMS, k)]
    jobs = []
    for c in core.chunked(lists, core.NPROC * 2):
        jobs.append({"lists": c, "pairs": [], "multisets": []})
    for c in core.chunked(pairs, core.NPROC * 2):
        jobs.append({"lists": [], "pairs": c, "multisets": []})
    for c in core.chunked(multisets, core.NPROC * 2):
        jobs.append({"lists": [], "pairs": [], "multisets": c})
    nested = [list(t) for n in range(0, 4)
              for t in itertools.product(U2, repeat=n)]
    for c in core.chunked(nested, core.NPROC):
        jobs.append({"lists": [], "pairs": [], "multisets": [],
                     "nested": c})
    keyed = [list(t) for n in range(0, 5 if tier == "quick" else 6)
             for t in itertools.product(KEYED, repeat=n)]
    for c in core.chunked(keyed, core.NPROC):
        jobs.append({"lists": [], "pairs": [], "multisets": [], "keyed": c})
    agg = core.pmap(explore_lists, jobs)
    agg.merge(core.pmap(explore_ints, [
        {"ints": c, "ranges": r} for c, r in zip(
            core.chunked(I80, core.NPROC),
            core.chunked(list(range(-3, 6)), core.NPROC) + [[]] * 16)]))
    agg.merge(core.pmap(explore_words, [{"words": [w]} for w in W] +
                        [{"extras": True}]))
    core.finish(
        PID, tier, seed, agg, t0,
        rule=(f"{len(lists)} lists (all of length <= {maxl} over {U}), "
              f"{len(nested)} lists of length <= 3 over elements that are "
              f"themselves lists/sets/maps/NULL for the rearranging "
              f"functions, {len(pairs)} list/set pairs for the set algebra "
              f"and zip, {len(keyed)} lists of [key, tag] pairs through every "
              f"function with a key/cmp parameter, "
              f"all distinct permutations of all {len(multisets)} multisets "
              f"of size <= 5 over {NUMS} for the statistics, all pairs of "
              f"{len(I80)} ints up to 2^80 for gcd/lcm (+ pow with 9 "
              f"exponents, abs, sign), range/interval on a small int grid, "
              f"all pairs of {len(W)} 32-bit boundary words and all shift "
              f"counts 0..40; {len(FORMS)} functions addressed "
              f"module-qualified in a non-legacy interpreter"),
        exhaustive=True,
        assumptions=["sign of gcd/lcm for negative arguments is not pinned",
                     "order statistics on mixed kinds, negative exponents "
                     "and words wider than 32 bits are out of scope",
                     "chunks of an empty sequence is not pinned"],
        replay_fn=replay,
    )
