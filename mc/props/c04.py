"""C04 Conditionals, loops, comprehensions and early exits have structured
semantics.

E2/E3: (1) loop nests (depth <= 2/3) over every iterable kind with an exit
statement {break, continue, return, and their conditional forms} inserted at
every statement position - all programs with 0, 1 and 2 insertions - with the
nest at top level of a function or with the inner loop in its own function,
plain or inside do..finally; (2) if/elif/else chains of <= 4 branches with
every assignment of {TRUE, FALSE, non-boolean} to the conditions; (3) for
over sets/maps built in every insertion order; (4) every comprehension form
over every collection kind; (5) stray break/continue.  Every program is
compared with the reference evaluator on result/error value and visit log.
"""
import itertools
import time

from mc import core
from mc.ref import refeval as E
from mc.ref import harness as H
from mc.props.c03 import judge, L, V  # noqa: F401
from mc.props.c03 import replay as _replay03

PID = "C04"

# iterable kinds: name -> (iterable expr, loop names, what, logged value)
ITER = {
    "list": (("list", [L(1), L(2), L(3)]), ["v"], None, V("v")),
    "set": (("set", [L(3), L(1), L(2)]), ["v"], None, V("v")),
    "string": (L("abc"), ["v"], None, V("v")),
    "mapkeys": (("map", [(L(2), L("b")), (L(1), L("a")), (L(3), L("c"))]),
                ["v"], "keys", V("v")),
    "mapentries": (("map", [(L(2), L("b")), (L(1), L("a")),
                            (L(3), L("c"))]),
                   ["v"], "entries", V("v")),
    "mapdestr": (("map", [(L(2), L("b")), (L(1), L("a")), (L(3), L("c"))]),
                 ["k", "w"], "entries", ("list", [V("k"), V("w")])),
    "listdestr": (("list", [("list", [L(1), L("x")]),
                            ("list", [L(2), L("y")]),
                            ("set", [L(9), L(3)])]),
                  ["k", "w"], None, ("list", [V("k"), V("w")])),
    "while": None,
}
# condition that is true on the 2nd visited element of each kind
SECOND = {
    "list": ("cmp", [V("v"), "==", L(2)]),
    "set": ("cmp", [V("v"), "==", L(2)]),
    "string": ("cmp", [V("v"), "==", L("b")]),
    "mapkeys": ("cmp", [V("v"), "==", L(2)]),
    "mapentries": ("cmp", [("index", V("v"), L(0)), "==", L(2)]),
    "mapdestr": ("cmp", [V("k"), "==", L(2)]),
    "listdestr": ("cmp", [V("k"), "==", L(2)]),
    "while": ("cmp", [V("n"), "==", L(2)]),
}


def rename(node, suffix):
    """give loop variables of one nesting level their own names"""
    if isinstance(node, tuple):
        if node[0] == "var" and node[1] in ("v", "k", "w", "n"):
            return ("var", node[1] + suffix)
        return tuple(rename(x, suffix) for x in node)
    if isinstance(node, list):
        return [rename(x, suffix) for x in node]
    return node


def make_loop(kind, lvl, body):
    sfx = str(lvl)
    if kind == "while":
        n = "n" + sfx
        return ("seq", [
            ("def", n, L(0)),
            ("while", ("cmp", [V(n), "<", L(3)]),
             ("seq", [("assign", n, ("bin", "+", V(n), L(1)))] + body))])
    it, names, what, _ = ITER[kind]
    return ("for", [x + sfx for x in names], what, it, ("seq", body))


def logged(kind, lvl):
    sfx = str(lvl)
    if kind == "while":
        return V("n" + sfx)
    return rename(ITER[kind][3], sfx)


EXITS = ["break", "continue", "return", "ifbreak", "ifcontinue", "ifreturn"]


def exit_stmt(name, kind, lvl):
    cond = rename(SECOND[kind], str(lvl))
    base = {"break": ("break",), "continue": ("continue",),
            "return": ("return", L("ret%d" % lvl))}
    if name in base:
        return base[name]
    inner = base[name[2:]]
    return ("if", [(cond, inner)], None)


def nest_program(kinds, insertions, wrap, fin):
    """kinds: iterable kind per level (outer first); insertions: list of
    (slot, exitname) where slot indexes the flattened statement positions;
    wrap: 'one' (whole nest in one function) | 'inner' (inner loop in its
    own function, called from the outer loop); fin: innermost body inside
    do..finally"""
    depth = len(kinds)
    slot = [0]
    ins = {}
    for s, e in insertions:
        ins.setdefault(s, []).append(e)

    def body_for(lvl):
        kind = kinds[lvl]
        stmts = []

        def place():
            for e in ins.get(slot[0], []):
                stmts.append(exit_stmt(e, kind, lvl))
            slot[0] += 1
        place()
        stmts.append(("log", ("list", [L("in%d" % lvl), logged(kind, lvl)])))
        place()
        if lvl + 1 < depth:
            inner = make_loop(kinds[lvl + 1], lvl + 1, body_for(lvl + 1))
            if wrap == "inner" and lvl + 1 == depth - 1:
                stmts.append(("def", "inner",
                              ("fn", [], ("seq", [inner, L("inner-end")])),
                              True))
                stmts.append(("log", ("list", [L("call"),
                                               ("call", V("inner"), [])])))
            else:
                stmts.append(inner)
            place()
        stmts.append(("log", ("list", [L("out%d" % lvl),
                                       logged(kind, lvl)])))
        place()
        if fin and lvl == depth - 1:
            return [("block", stmts, [],
                     [("log", L("fin%d" % lvl))])]
        return stmts
    top = make_loop(kinds[0], 0, body_for(0))
    prog = [("def", "run", ("fn", [], ("seq", [top, L("run-end")])), True),
            ("block", [("log", ("list", [L("result"),
                                         ("call", V("run"), [])]))],
             [(None, ("log", L("error")))], [])]
    return ("seq", prog), slot[0]


def explore_nests(chunk):
    agg = core.Agg()
    for kinds in chunk["kinds"]:
        for wrap in chunk["wraps"]:
            for fin in (False, True):
                _, nslots = nest_program(kinds, [], wrap, fin)
                plans = [[]]
                one = [(s, e) for s in range(nslots) for e in EXITS]
                if chunk["maxins"] >= 1:
                    plans += [[x] for x in one]
                if chunk["maxins"] >= 2:
                    plans += [[x, y] for i, x in enumerate(one)
                              for y in one[i:] if not (x == y)]
                for plan in plans:
                    ast, _ = nest_program(kinds, plan, wrap, fin)
                    judge(agg, "nest", ast,
                          {"ins": len(plan), "wrap": wrap, "fin": fin})
        agg.count("cases")
    return agg


# ---- if chains --------------------------------------------------------------
def explore_ifs(chunk):
    agg = core.Agg()
    vals = [True, False, 1, None]
    for nb in chunk["branches"]:
        for assign in itertools.product(vals, repeat=nb):
            for has_else in (False, True):
                conds = [("seq", [("log", L("c%d" % i)), L(v)])
                         for i, v in enumerate(assign)]
                branches = [(c, ("log", L("b%d" % i)))
                            for i, c in enumerate(conds)]
                els = ("log", L("else")) if has_else else None
                node = ("if", branches, els)
                # the value of an else-less if whose conditions are all
                # false is not pinned: log only
                prog = ("seq", [node, ("log", L("after"))]) \
                    if not has_else else \
                    ("seq", [("log", ("list", [L("value"), node]))])
                judge(agg, "if", prog, {"branches": nb})
                # block bodies
                node2 = ("if", [(c, ("seq", [("log", L("B%d" % i)),
                                             L(i)]))
                                for i, c in enumerate(conds)],
                         ("seq", [("log", L("E")), L(-1)])
                         if has_else else None)
                judge(agg, "if-block", ("seq", [node2,
                                                ("log", L("after"))]),
                      {"branches": nb})
        agg.count("cases")
    return agg


# ---- iteration order --------------------------------------------------------
ORDER_POOLS = {
    "ints": [3, 1, 2, -5], "decimals": [2.5, -1.0, 0.5, 10.25],
    "mixed": [2, 1.5, -1, 0.25],
    "strings": ["b", "a", " ", "'", "A", "ab"],
}


def explore_order(chunk):
    agg = core.Agg()
    for name, elems in chunk["subsets"]:
        for perm in itertools.permutations(elems):
            s = ("set", [L(x) for x in perm])
            m = ("map", [(L(x), L(i)) for i, x in enumerate(perm)])
            prog = ("seq", [
                ("for", ["e"], None, s, ("seq", [("log", V("e"))])),
                ("for", ["e"], "keys", m, ("seq", [("log", V("e"))])),
                ("for", ["e"], "entries", m, ("seq", [("log", V("e"))])),
                ("for", ["a", "b"], "entries", m,
                 ("seq", [("log", ("list", [V("a"), V("b")]))])),
                ("for", ["e"], None, ("list", [L(x) for x in perm]),
                 ("seq", [("log", V("e"))])),
                ("comp", "list", V("e"), [("e", None, s)], "single", None),
            ])
            judge(agg, "order", prog, {"pool": name})
        agg.count("cases")
    return agg


# ---- comprehensions ---------------------------------------------------------
COMP_ITERS = [
    ("list", None, ("list", [L(3), L(1), L(2), L(1)])),
    ("set", None, ("set", [L(3), L(1), L(2)])),
    ("string", None, L("bca")),
    ("keys", "keys", ("map", [(L(2), L(20)), (L(1), L(10))])),
    ("entries", "entries", ("map", [(L(2), L(20)), (L(1), L(10))])),
    ("mapdefault", None, None),
    ("empty", None, ("list", [])),
]


def explore_comps(chunk):
    agg = core.Agg()
    for ckind in ("list", "set", "map"):
        for (n1, w1, it1) in COMP_ITERS:
            if it1 is None:
                continue
            conds = [None,
                     ("cmp", [("call", V("string"), [("pos", V("x"))]),
                              "!=", L("1")])]
            for cond in conds:
                val = ("list", [V("x")]) if ckind != "map" else \
                    (("call", V("string"), [("pos", V("x"))]), V("x"))
                ast = ("comp", ckind, val, [("x", w1, it1)], "single", cond)
                loop = explicit_loop(ckind, val, [("x", w1, it1)], "single",
                                     cond)
                judge(agg, "comp-single",
                      ("seq", [("list", [ast, loop])]), {"kind": ckind})
                if ckind == "map":
                    continue
                for (n2, w2, it2) in COMP_ITERS:
                    if it2 is None:
                        continue
                    val2 = ("list", [V("x"), V("y")])
                    cond2 = None if cond is None else \
                        ("cmp", [("call", V("string"), [("pos", V("y"))]),
                                 "!=", L("1")])
                    for mode in ("product", "parallel"):
                        cl = [("x", w1, it1), ("y", w2, it2)]
                        ast = ("comp", ckind, val2, cl, mode, cond2)
                        loop = explicit_loop(ckind, val2, cl, mode, cond2)
                        parts = [ast] if loop is None else [ast, loop]
                        judge(agg, "comp-" + mode,
                              ("seq", [("list", parts)]), {"kind": ckind})
        agg.count("cases")
    return agg


def explicit_loop(ckind, val, clauses, mode, cond):
    """the equivalent explicit loop as an expression (a called function)"""
    if mode == "parallel":
        return None
    init = {"list": ("list", []), "set": ("set", []),
            "map": ("map", [])}[ckind]
    if ckind == "map":
        add = ("call", V("put"), [("pos", V("r")), ("pos", val[0]),
                                  ("pos", val[1])])
    else:
        add = ("call", V("append"), [("pos", V("r")), ("pos", val)])
    inner = add if cond is None else ("if", [(cond, add)], None)
    body = inner
    for (name, what, it) in reversed(clauses):
        body = ("for", [name], what, it, ("seq", [body]))
    return ("call", ("fn", [], ("seq", [("def", "r", init), body, V("r")])),
            [])


# ---- stray exits ------------------------------------------------------------
def stray_programs():
    progs = []
    # a loop that is the LAST statement of a function and whose body ends in
    # an unconditional return: the first iteration leaves the function
    for itk, what in ((("list", [L(3), L(1), L(2)]), None),
                      (("set", [L(30), L(10), L(20)]), None),
                      (L("cab"), None),
                      (("map", [(L(2), L("b")), (L(1), L("a"))]), "keys")):
        progs.append(("seq", [
            ("def", "firstof", ("fn", [("s", None, False)], ("seq", [
                ("for", ["x"], what, V("s"),
                 ("seq", [("log", V("x")), ("return", V("x"))]))])), True),
            ("list", [("call", V("firstof"), [("pos", itk)]),
                      ("call", V("firstof"), [("pos", itk)])])]))
        progs.append(("seq", [
            ("def", "firstof", ("fn", [("s", None, False)],
                                ("for", ["x"], what, V("s"),
                                 ("return", ("list", [V("x")])))), True),
            ("call", V("firstof"), [("pos", itk)])]))
    progs.append(("seq", [
        ("def", "n", L(0)),
        ("def", "upto", ("fn", [], ("seq", [
            ("while", ("cmp", [V("n"), "<", L(5)]),
             ("seq", [("assign", "n", ("bin", "+", V("n"), L(1))),
                      ("log", V("n")),
                      ("return", ("bin", "*", V("n"), L(100)))]))])), True),
        ("list", [("call", V("upto"), []), V("n")])]))
    progs.append(("seq", [
        ("def", "pick", ("fn", [("s", None, False)], ("seq", [
            ("for", ["x"], None, V("s"), ("seq", [
                ("for", ["y"], None, ("list", [L(1), L(2)]),
                 ("seq", [("log", ("list", [V("x"), V("y")])),
                          ("return", ("list", [V("x"), V("y")]))]))]))])),
         True),
        ("call", V("pick"), [("pos", ("list", [L(7), L(8)]))])]))
    for ex in ("break", "continue"):
        progs.append(("seq", [("log", L("a")), (ex,), ("log", L("b"))]))
        progs.append(("seq", [
            ("def", "f", ("fn", [], ("seq", [("log", L("in-f")), (ex,),
                                             ("log", L("after"))])), True),
            ("for", ["i"], None, ("list", [L(1), L(2), L(3)]),
             ("seq", [("log", V("i")),
                      ("block", [("call", V("f"), [])],
                       [(None, ("log", L("caught")))], []),
                      ("log", ("list", [L("still"), V("i")]))]))]))
        progs.append(("seq", [
            ("def", "f", ("fn", [], (ex,)), True),
            ("for", ["i"], None, ("list", [L(1), L(2)]),
             ("seq", [("log", V("i")), ("call", V("f"), []),
                      ("log", L("unreached"))]))]))
        progs.append(("seq", [
            ("def", "f", ("fn", [], ("if", [(L(True), (ex,))], None)),
             True),
            ("def", "n", L(0)),
            ("while", ("cmp", [V("n"), "<", L(2)]),
             ("seq", [("assign", "n", ("bin", "+", V("n"), L(1))),
                      ("block", [("call", V("f"), [])],
                       [(L("ERROR"), ("log", L("caught")))], []),
                      ("log", V("n"))]))]))
    # return leaves only the innermost function
    progs.append(("seq", [
        ("def", "inner", ("fn", [("x", None, False)], ("seq", [
            ("for", ["i"], None, ("list", [L(1), L(2), L(3)]),
             ("seq", [("if", [(("cmp", [V("i"), "==", V("x")]),
                               ("return", ("bin", "*", V("i"), L(10))))],
                       None), ("log", V("i"))])),
            L("none")])), True),
        ("def", "outer", ("fn", [], ("seq", [
            ("def", "r", ("list", [])),
            ("for", ["k"], None, ("list", [L(2), L(9), L(1)]),
             ("seq", [("call", V("append"), [
                 ("pos", V("r")), ("pos", ("call", V("inner"),
                                           [("pos", V("k"))]))])])),
            V("r")])), True),
        ("call", V("outer"), [])]))
    return progs


# ---- comprehension == explicit loop, source-level differential --------------
DIFF_SOURCES = [
    ("[1, 2, 3, 4, 5, 6, 7]", [""]),
    ("[3, 1, 3, 2]", [""]),
    ("'abcabc'", [""]),
    ("''", [""]),
    ("<<3, 1, 2>>", [""]),
    ("range(7)", [""]),
    ("<<<3 => 'c', 1 => 'a', 2 => 'a'>>>", ["keys ", "entries ",
                                             "values "]),
    # values that descend while the keys ascend
    ("<<<1 => 'c', 2 => 'b', 3 => 'a', 4 => 'b'>>>", ["values ", "entries "]),
    ("<*a = 1, _hidden = 2, c = 3*>", ["keys ", "values ", "entries "]),
    ("<*a = 1, _proto_ = <*z = 9*>, b = [2]*>", ["keys ", "entries "]),
    ("<**>", ["keys "]),
]
# c: a variable of the enclosing scope (the value expression is a bare
# identifier that is not the loop variable)
DIFF_VALUES = ["x", "[x]", "string(x)", "c"]
DIFF_KEYS = ["string(x)", "length(string(x))", "1"]
DIFF_CONDS = ["", "string(x) != 'a' and string(x) != '1'"]


def comp_loop_pairs():
    """(what, program) - each program returns [comprehension, loop result]"""
    for src, sels in DIFF_SOURCES:
        for sel in sels:
            for cond in DIFF_CONDS:
                cif = " if " + cond if cond else ""
                lif = "if " + cond + " then " if cond else ""
                for f in DIFF_VALUES:
                    yield "list", (
                        f"def c = 7; def s = {src}; "
                        f"[[{f} for x in {sel}s{cif}], "
                        f"do def r = []; for x in {sel}s do "
                        f"{lif}append(r, {f}); end; r end]")
                    yield "set", (
                        f"def c = 7; def s = {src}; "
                        f"[<<{f} for x in {sel}s{cif}>>, "
                        f"do def r = <<>>; for x in {sel}s do "
                        f"{lif}append(r, {f}); end; r end]")
                    for k in DIFF_KEYS:
                        yield "map", (
                            f"def c = 7; def s = {src}; "
                            f"[<<<{k} => {f} for x in {sel}s{cif}>>>, "
                            f"do def r = <<<>>>; for x in {sel}s do "
                            f"{lif}r[{k}] = {f}; end; r end]")


    # an inner comprehension whose value is the loop variable of the outer
    for (o, c, ini) in (("[", "]", "[]"), ("<<", ">>", "<<>>")):
        yield "nested", (
            f"[{o} {o}x for y in range(2){c} for x in range(3) {c}, "
            f"do def r = {ini}; for x in range(3) do def q = {ini}; "
            f"for y in range(2) do append(q, x); end; append(r, q); end; "
            f"r end]")
        yield "nested", (
            f"[{o} {o}y for y in range(x){c} for x in range(3) {c}, "
            f"do def r = {ini}; for x in range(3) do def q = {ini}; "
            f"for y in range(x) do append(q, y); end; append(r, q); end; "
            f"r end]")
    # two sources with a selector each (maps whose values descend while
    # their keys ascend: the values come in key order in both forms)
    m1 = "<<<1 => 20, 2 => 10>>>"
    m2 = "<<<'a' => 'y', 'b' => 'x'>>>"
    for sel1 in ("keys ", "values ", "entries "):
        for sel2 in ("keys ", "values ", "entries "):
            for (o, c, ini, add) in (("[", "]", "[]", "append(r, [a, b])"),
                                     ("<<", ">>", "<<>>",
                                      "append(r, [a, b])")):
                yield "product-selectors", (
                    f"def m = {m1}; def n = {m2}; "
                    f"[{o}[a, b] for a in {sel1}m for b in {sel2}n{c}, "
                    f"do def r = {ini}; for a in {sel1}m do "
                    f"for b in {sel2}n do {add}; end; end; r end]")
                yield "parallel-selectors", (
                    f"def m = {m1}; def n = {m2}; "
                    f"[{o}[a, b] for a in {sel1}m also for b in {sel2}n{c}, "
                    f"do def r = {ini}; def bs = []; "
                    f"for b in {sel2}n do append(bs, b); end; "
                    f"def i = 0; for a in {sel1}m do append(r, [a, bs[i]]); "
                    f"i += 1; end; r end]")
    # effects and failures: the filter guards the value expression exactly as
    # the `if` of the explicit loop does (evaluation order cond -> value)
    pre = ("def lg = []; def val(x) do append(lg, 'v' + string(x)); x end; "
           "def cond(x) do append(lg, 'c' + string(x)); x != 2 end; ")
    forms = [
        ("[val(x) for x in [1, 2, 3] if cond(x)]",
         "for x in [1, 2, 3] do if cond(x) then append(r, val(x)); end",
         "[]"),
        ("<<val(x) for x in [1, 2, 3] if cond(x)>>",
         "for x in [1, 2, 3] do if cond(x) then append(r, val(x)); end",
         "<<>>"),
        ("<<<val(x) => [val(x)] for x in [1, 2, 3] if cond(x)>>>",
         "for x in [1, 2, 3] do if cond(x) then r[val(x)] = [val(x)]; end",
         "<<<>>>"),
        ("[[val(x), y] for x in [1, 2, 3] for y in [7, 8] if cond(x)]",
         "for x in [1, 2, 3] do for y in [7, 8] do "
         "if cond(x) then append(r, [val(x), y]); end; end", "[]"),
        ("<<[val(x), y] for x in [1, 2, 3] for y in [7, 8] if cond(x)>>",
         "for x in [1, 2, 3] do for y in [7, 8] do "
         "if cond(x) then append(r, [val(x), y]); end; end", "<<>>"),
        ("[1 / (x - 2) for x in [1, 2, 3] if x != 2]",
         "for x in [1, 2, 3] do if x != 2 then append(r, 1 / (x - 2)); end",
         "[]"),
        ("<<1 / (x - 2) for x in [1, 2, 3] if x != 2>>",
         "for x in [1, 2, 3] do if x != 2 then append(r, 1 / (x - 2)); end",
         "<<>>"),
        ("<<<x => 1 / (x - 2) for x in [1, 2, 3] if x != 2>>>",
         "for x in [1, 2, 3] do if x != 2 then r[x] = 1 / (x - 2); end",
         "<<<>>>"),
        ("[1 / (x - 2) + y for x in [1, 2, 3] also for y in [0, 0, 0] "
         "if x != 2]", None, None),
    ]
    for comp, loop, init in forms:
        if loop is None:
            yield "effects", (pre + f"[{comp}, [-1, 1]]")
            continue
        yield "effects", (
            pre + f"def a = {comp}; def la = lg; lg = []; "
            f"def r = {init}; {loop}; [[a, la], [r, lg]]")


# a collection changed between (or during) two traversals: the second
# traversal sees the current elements, in order
MUTATE_THEN_ITERATE = [
    ("def s = <<1, 2, 3>>; def r = []; for x in s do append(r, x); end; "
     "remove(s, 3); append(s, 7); for x in s do append(r, x); end; "
     "[r, [x for x in s], string(s), 3 in s, 7 in s]",
     "[[1, 2, 3, 1, 2, 7], [1, 2, 7], '<<1, 2, 7>>', FALSE, TRUE]"),
    ("def s = <<5, 6>>; def r = []; for k in [1, 2, 3] do "
     "remove(s, 5 + k - 1); append(s, 5 + k + 1); "
     "append(r, [x for x in s]); end; r",
     "[[6, 7], [7, 8], [8, 9]]"),
    ("def s = <<10, 20>>; def r = []; for i in [0, 1, 2] do "
     "for x in s do append(r, x); end; remove(s, 20 + i); "
     "append(s, 21 + i); end; r",
     "[10, 20, 10, 21, 10, 22]"),
    ("def l = [1, 2, 3]; def r = []; for x in l do append(r, x); end; "
     "l[1] = 9; for x in l do append(r, x); end; r",
     "[1, 2, 3, 1, 9, 3]"),
    ("def m = <<<1 => 'a', 2 => 'b'>>>; def r = []; "
     "for k in keys m do append(r, k); end; remove(m, 2); m[0] = 'z'; "
     "for k in keys m do append(r, k); end; [r, [e for e in entries m]]",
     "[[1, 2, 0, 1], [[0, 'z'], [1, 'a']]]"),
    ("def s = <<'b', 'a'>>; def t = s; remove(t, 'a'); append(t, 'c'); "
     "[[x for x in s], <<x for x in s>>, <<<x => 1 for x in s>>>]",
     "[['b', 'c'], <<'b', 'c'>>, <<<'b' => 1, 'c' => 1>>>]"),
    ("def s = <<1, 2>>; def r = []; for x in s do append(s, x + 10); "
     "append(r, x); end; [r, [x for x in s]]",
     "[[1, 2], [1, 2, 11, 12]]"),
    ("<<[a, b] for a in [1] also for b in [7, 8, 9]>>",
     "<<[1, 7], [NULL, 8], [NULL, 9]>>"),
    ("<<[a, b] for a in [1, 2, 3] also for b in [7]>>",
     "<<[1, 7], [2, NULL], [3, NULL]>>"),
    ("[[a, b] for a in [1, 2, 3] also for b in [7]]",
     "[[1, 7], [2, NULL], [3, NULL]]"),
]


def diff_ok(src):
    got, _ = H.run_impl_value(src)
    return (got[0] == "value" and isinstance(got[1], list)
            and len(got[1]) == 2 and core.strict_eq(got[1][0], got[1][1])), \
        got


# sources iterated WITHOUT a selector: (source, kind, what the comprehension
# is known to yield instead of what the loop visits)
DEFAULT_SOURCES = [
    ("<<<3 => 'c', 1 => 'a', 2 => 'a'>>>", "map", "entries "),
    ("<<<'k' => 2>>>", "map", "entries "),
    ("<<<>>>", "map", "entries "),
    ("<*a = 1, c = 3*>", "object", "keys "),
    ("<*a = 1, _proto_ = <*z = 9*>, b = [2]*>", "object", "keys "),
    ("<**>", "object", "keys "),
]


def default_selector_triples():
    """programs that return [comprehension over s, the same explicit loop,
    the comprehension with the selector it is known to use instead]"""
    for src, kind, named in DEFAULT_SOURCES:
        for cond in DIFF_CONDS:
            cif = " if " + cond if cond else ""
            lif = "if " + cond + " then " if cond else ""
            for f in ("x", "[x]"):
                for (o, c, ini) in (("[", "]", "[]"), ("<< ", " >>", "<<>>")):
                    yield kind, named.strip(), (
                        f"def s = {src}; [{o}{f} for x in s{cif}{c}, "
                        f"do def r = {ini}; for x in s do "
                        f"{lif}append(r, {f}); end; r end, "
                        f"{o}{f} for x in {named}s{cif}{c}]")


def default_selector_verdict(src):
    """None (comprehension == loop), or what the comprehension yields"""
    got, _ = H.run_impl_value(src)
    if not (got[0] == "value" and isinstance(got[1], list)
            and len(got[1]) == 3):
        return "no-value", got
    a, b, c = got[1]
    if core.strict_eq(a, b):
        return None, got
    return ("named" if core.strict_eq(a, c) else "other"), got


def explore_comp_diff(chunk):
    """a comprehension yields the same elements as the equivalent explicit
    loop (implementation against implementation): objects with underscore
    members and prototypes, strings and lists with repeats, map
    comprehensions whose keys collide (the last one wins in both)"""
    agg = core.Agg()
    pairs = list(comp_loop_pairs()) + [
        ("mutate", "[do " + prog + "; end, " + want + "]")
        for prog, want in MUTATE_THEN_ITERATE]
    for what, src in pairs:
        ok, got = diff_ok(src)
        agg.count("steps")
        agg.cls(("comp-diff", what, got[0]))
        if not ok:
            agg.violation({"part": "comp-vs-loop", "kind": what},
                          {"src": src, "diff": True},
                          "[v, v]", list(got), size=len(src))
    for kind, named, src in default_selector_triples():
        verdict, got = default_selector_verdict(src)
        agg.count("steps")
        agg.cls(("comp-default", kind, verdict))
        if verdict is not None:
            agg.violation(
                {"part": "comp-vs-loop", "kind": "default-selector",
                 "source": kind,
                 "comprehension-yields": named if verdict == "named"
                 else verdict},
                {"src": src, "diff3": True},
                "[v, v, _]: the comprehension yields what the loop visits",
                list(got), size=len(src))
    agg.count("cases")
    return agg


def replay(case, verbose=False):
    if case.get("diff3"):
        verdict, got = default_selector_verdict(case["src"])
        if verbose:
            print(case["src"], "->", got)
        return verdict is not None
    if case.get("diff"):
        ok, got = diff_ok(case["src"])
        if verbose:
            print(case["src"], "->", got)
        return not ok
    return _replay03(case, verbose)


def explore_stray(chunk):
    agg = core.Agg()
    for ast in chunk["programs"]:
        judge(agg, "stray", ast)
        agg.count("cases")
    return agg


def main(tier, seed):
    t0 = time.time()
    kinds = [k for k in ITER]
    pairs = [(a, b) for a in kinds for b in kinds]
    jobs = []
    core3 = ["list", "set", "while", "mapdestr"]
    if tier == "quick":
        for c in core.chunked(pairs, core.NPROC * 2):
            jobs.append({"kinds": c, "wraps": ["one", "inner"], "maxins": 1})
        for c in core.chunked([(a, b) for a in core3[:3] for b in core3[:3]],
                              9):
            jobs.append({"kinds": c, "wraps": ["one", "inner"], "maxins": 2})
        for c in core.chunked([(k,) for k in kinds], 8):
            jobs.append({"kinds": c, "wraps": ["one"], "maxins": 2})
    else:
        for c in core.chunked(pairs, core.NPROC * 4):
            jobs.append({"kinds": c, "wraps": ["one", "inner"], "maxins": 2})
        for c in core.chunked([(k,) for k in kinds], 8):
            jobs.append({"kinds": c, "wraps": ["one"], "maxins": 2})
        triples = [(a, b, c) for a in core3 for b in core3 for c in core3]
        for c in core.chunked(triples, core.NPROC * 4):
            jobs.append({"kinds": c, "wraps": ["one", "inner"], "maxins": 1})
        for c in core.chunked([(a, b, c) for a in core3[:2]
                               for b in core3[:3] for c in core3[:2]], 12):
            jobs.append({"kinds": c, "wraps": ["one"], "maxins": 2})
    agg = core.pmap(explore_nests, jobs)
    agg.merge(core.pmap(explore_ifs, [{"branches": [n]}
                                      for n in (1, 2, 3, 4)]))
    subsets = []
    for name, pool in ORDER_POOLS.items():
        for k in range(1, 5 if tier == "thorough" else 4):
            for c in itertools.combinations(pool, k):
                subsets.append((name, c))
    agg.merge(core.pmap(explore_order, [{"subsets": c} for c in
                                        core.chunked(subsets, core.NPROC)]))
    agg.merge(core.pmap(explore_comps, [{}]))
    agg.merge(core.pmap(explore_comp_diff, [{}]))
    agg.merge(core.pmap(explore_stray, [{"programs": stray_programs()}]))
    core.finish(
        PID, tier, seed, agg, t0,
        rule=(f"loop nests over {len(kinds)} iterable kinds (depth 2: all "
              f"{len(pairs)} kind pairs" +
              ("; depth 3 over 4 kinds" if tier == "thorough" else "") +
              f") x nest in one function / inner loop in its own function "
              f"x plain / do..finally x all insertions of <= 1 (all) and "
              f"<= 2 (core kinds" +
              (" and all pairs" if tier == "thorough" else "") +
              f") exit statements from {EXITS} at every statement slot; "
              f"if/elif/else chains of 1..4 branches x all assignments of "
              f"TRUE/FALSE/non-boolean/NULL; for over sets/maps in every "
              f"insertion order of all <= 3/4-subsets of 4 pools; every "
              f"comprehension form (list/set/map, single/product/parallel, "
              f"with/without if) over 6 iterables together with its "
              f"explicit loop; stray break/continue/return programs"),
        exhaustive=True,
        assumptions=["order of `values` enumeration of a map and padding "
                     "of parallel comprehensions of unequal length are not "
                     "claimed", "loop variables are not read after the "
                     "loop"],
        replay_fn=replay,
    )
