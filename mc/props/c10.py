"""C10 Interpreter sessions keep definitions and survive failed calls
unchanged.

E4: the trie of ALL sequences of session commands up to length 4/5 issued to
one interpreter, and up to length 3/4 to two interleaved interpreters (every
A/B tagging), explored with fork snapshots of live interpreters; every
response is compared with a reference session model (top-level definitions,
loaded modules, the caller-supplied environment).  The snapshots are
cross-checked against whole-history replay on fresh interpreters.
"""
import itertools
import json
import os
import time

from mc import core, e4

PID = "C10"

MODULES = {
    "Good": ("def counter = [0];\n"
             "def bump() do counter[0] += 1; counter[0] end;\n"
             "def get() counter[0];\n"),
    "Broken": "def x = 1;\nerror 'broken';\ndef y = 2;\n",
    "Syn": "def x = 1;\ndef y = (;\n",
    "CycA": "require CycB;\ndef a = 1;\n",
    "CycB": "require CycA;\ndef b = 2;\n",
    "UsesGood": "require Good;\ndef twice() do Good->bump(); Good->bump() end;\n",
}

CMDS = {
    "def_a": "def a = 1",
    "def_f": "def f() a",
    "inc_a": "a = a + 1",
    "read_a": "a",
    "call_f": "f()",
    "div0": "1 / 0",
    "partial": "def b = 2; error 'e'; def c = 3",
    "read_bc": "[do b catch all 'nob' end, do c catch all 'noc' end]",
    "syntax": "def d = (",
    "req_good": "require Good",
    "bump": "Good->bump()",
    "req_as": "require Good as G2; G2->bump()",
    "call_g": "def g() do def a = 100; def qq = 5; a + qq end; g()",
    "read_q": "do qq catch all 'noq' end",
    "loop_fn": "def lf() do for a in [1] do for a in [2] do a end end; "
               "for [f, f] in [[3, 4]] do f end; 0 end; lf()",
    "req_uses": "require UsesGood; UsesGood->twice()",
    "req_missing": "require Missing",
    "req_broken": "require Broken",
    "req_syn": "require Syn",
    "req_cyc": "require CycA",
    "loop_err": "for i in [1, 2, 3] do if i == 2 then error 'x'; end",
    "say": "println('hi'); 1",
    # a text with a syntax error runs nothing, wherever the error sits
    "syn_sys": "def sl = 1; a = a + 1; checkerlang_secure_mode = FALSE",
    "syn_after": "def sa = 1; a = a + 1; def sb = (",
    "read_sx": "[do sa catch all 'nosa' end, do sl catch all 'nosl' end]",
    # definitions made in a loop body are session definitions, also when
    # the loop is aborted later
    "loop_def": "for n in [10, 20] do def seen = n; end; seen",
    "loop_def_fail": "for n in [10, 20, 30] do def seen2 = n; "
                     "if n == 20 then error 'stop' end",
    "read_seen": "[do seen catch all 'no1' end, do seen2 catch all 'no2' end]",
    # a session may define its own stdout: both print forms follow it
    "def_out": "require IO; def stdout = IO->str_output(); 1",
    "say2": "print('p'); println('q'); 2",
    # a definition whose right-hand side fails binds nothing
    "class_fail": "def class Point do def x = 1; def y = 1 / 0 end",
    "def_fail": "def v = [1, 1 / 0]",
    "read_pv": "[do Point catch all 'nop' end, do v catch all 'nov' end]",
    # string literals of an earlier call are not shared with later calls
    "str_edit": "def tag = 'abc'; tag[0] = 'X'; tag",
    "str_def": "def tag = 'abc'; tag",
    # the random generator is interpreter state too: a call that fails its
    # argument check leaves it where it was
    "seed": "require Random; Random->set_seed(42); 1",
    "rnd": "require Random; Random->random(1000)",
    "rnd_fail": "require Random; Random->random('ten')",
    # a session definition that shadows a library function is seen by
    # functions defined (and already called) earlier
    "lib_def": "def total(l) sum(l); 1",
    "lib_call": "total([1, 2, 3])",
    "lib_shadow": "def sum(l) -1; 1",
    "lib_shadow_fail": "def sum(l) -2; error 'late'",
    # a loop that fails midway: its variable keeps the element it failed on
    # (a binding made before the point of failure), whatever it iterates
    "loop_in_err": "require IO; for item in IO->str_input('a\\nb\\nc') do "
                   "if item == 'b' then error 'bad' end",
    "loop_ls_err": "for item2 in ['a', 'b', 'c'] do "
                   "if item2 == 'b' then error 'bad2' end",
    "read_items": "[do item catch all 'no1' end, "
                  "do item2 catch all 'no2' end]",
    "env2_read": ("E2", "[do limit catch all 'nol' end, "
                        "do a catch all 'noa' end, do w catch all 'now' end]"),
    "env2_fail": ("E2", "def w = 3; error 'boom'"),
    "env_def": ("E", "def z = 7; z"),
    "env_read": ("E", "[do z catch all 'noz' end, do a catch all 'noa' end, "
                      "do nope catch all 'nn' end]"),
}
ORDER = list(CMDS)


def write_modules(config):
    home = os.path.join(core.SCRATCH_HOME, ".ckl", "modules")
    other = os.path.join(core.SCRATCH_HOME, "modpath")
    for d in (home, other):
        os.makedirs(d, exist_ok=True)
        for f in os.listdir(d):
            os.remove(os.path.join(d, f))
    target = home if config == "home" else other
    for name, src in MODULES.items():
        with open(os.path.join(target, name + ".ckl"), "w") as f:
            f.write(src)
    return other


class State:
    def __init__(self, config, whos=("A", "B")):
        self.sessions = {}
        for who in whos:
            s = core.Session()
            if config == "path":
                V = core.ckl.values
                lst = V.ValueList().addItem(V.ValueString(
                    os.path.join(core.SCRATCH_HOME, "modpath")))
                s.interp.base_environment.put("checkerlang_module_path", lst)
            s.E = core.ckl.functions.get_none_environment()
            # a nested caller-supplied scope: outer holds a definition
            s.outer = core.ckl.functions.get_none_environment()
            s.interp.interpret("def limit = 5", "setup", s.outer)
            s.inner = s.outer.newEnv()
            self.sessions[who] = s


NOISE = ["def_a", "def_f", "inc_a", "req_good", "bump", "bump", "req_as",
         "env_def", "partial", "req_uses", "say", "env2_fail"]


def make_noise(config):
    """another interpreter instance that lived in this process before the
    one under test: instances must not see each other's definitions or
    modules, so the expectations do not depend on it"""
    ex = Sessions(["A"], ORDER)
    n = State(config, ["A"])
    for c in NOISE:
        ex.execute(n, ("A", c))
    return n


_SEQ = []


def random_sequence():
    """the draws that follow set_seed(42) in an interpreter in which nothing
    else happened"""
    if not _SEQ:
        s = core.Session()
        s.interp.interpret("require Random; Random->set_seed(42)", "seq")
        for _ in range(8):
            _SEQ.append(int(s.interp.interpret("Random->random(1000)",
                                               "seq").value))
    return _SEQ


def new_model():
    return {w: {"a": None, "f": False, "b": False, "good": False,
                "loaded": False, "counter": 0, "z": False}
            for w in ("A", "B")}


def fmt(v):
    return repr(v) if not isinstance(v, str) else "'" + v + "'"


class Sessions(e4.Explorer):
    def __init__(self, whos, cmds, prefixes=None):
        self.whos = whos
        self.cmds = cmds
        self.prefixes = prefixes      # set of allowed 2-command prefixes

    def alphabet(self, state, model, history):
        full = [(w, c) for w in self.whos for c in self.cmds]
        if self.prefixes is None or len(history) >= 2:
            return full
        if len(history) == 0:
            firsts = {p[0] for p in self.prefixes}
            return [x for x in full if x in firsts]
        return [x for x in full if (history[0], x) in self.prefixes]

    def execute(self, state, cmd):
        who, name = cmd
        s = state.sessions[who]
        spec = CMDS[name]
        before = {w: len(x.out.getvalue())
                  for w, x in state.sessions.items()}
        details = []

        def once():
            try:
                if isinstance(spec, tuple):
                    env = s.E if spec[0] == "E" else s.inner
                    return s.interp.interpret(spec[1], "session", env)
                return s.interp.interpret(spec, "session")
            except core.CklRuntimeError as e:
                details.append(["rt", repr(e.value), str(e.pos),
                                [str(x) for x in e.stacktrace]])
                raise
            except core.CklSyntaxError as e:
                details.append(["syn", str(e.msg), str(e.pos)])
                raise
        core.set_fuel(100000, 100000)
        try:
            o = core.outcome_of(once)
            if o[0] in ("rt", "syn"):
                # a failed call is repeated at once: it must fail in exactly
                # the same way (value, position, call trace) and - by the
                # statement - leaves nothing behind that the model would see
                o2 = core.outcome_of(once)
                if o2[0] != o[0] or len(details) != 2 or \
                        details[0] != details[1]:
                    details.append("differs")
        finally:
            core.set_fuel(10 ** 12, 10 ** 12)
        # text that arrived on each interpreter's own output stream
        outs = sorted((w, x.out.getvalue()[before[w]:])
                      for w, x in state.sessions.items()
                      if len(x.out.getvalue()) != before[w])
        if o[0] == "value":
            r = ["value", o[2]]
        elif o[0] == "syn":
            r = ["syn"]
        else:
            r = list(o)
        if outs:
            r.append({"output": outs})
        if details and details[-1] == "differs":
            r.append({"repeat": details[:2]})
        return r

    def model_step(self, model, cmd):
        who, name = cmd
        m = {w: dict(v) for w, v in model.items()}
        s = m[who]
        ERR = ["rt", "'ERROR'"]
        if name == "def_a":
            s["a"] = 1
            exp = ["value", "1"]
        elif name == "def_f":
            s["f"] = True
            exp = ["value", None]
        elif name == "inc_a":
            if s["a"] is None:
                exp = ERR
            else:
                s["a"] += 1
                exp = ["value", str(s["a"])]
        elif name == "read_a":
            exp = ERR if s["a"] is None else ["value", str(s["a"])]
        elif name == "call_f":
            exp = ERR if (not s["f"] or s["a"] is None) \
                else ["value", str(s["a"])]
        elif name == "div0":
            exp = ERR
        elif name == "partial":
            s["b"] = True
            exp = ["rt", "'e'"]
        elif name == "read_bc":
            exp = ["value", "[" + ("2" if s["b"] else "'nob'") +
                   ", 'noc']"]
        elif name == "syntax":
            exp = ["syn"]
        elif name == "req_good":
            s["good"] = True
            s["loaded"] = True
            exp = ["value", "NULL"]
        elif name == "bump":
            if s["good"]:
                s["counter"] += 1
                exp = ["value", str(s["counter"])]
            else:
                exp = ERR
        elif name == "req_as":
            s["loaded"] = True
            s["counter"] += 1
            exp = ["value", str(s["counter"])]
        elif name == "call_g":
            exp = ["value", "105"]
        elif name == "read_q":
            exp = ["value", "'noq'"]
        elif name == "loop_fn":
            exp = ["value", "0"]
        elif name == "req_uses":
            s["loaded"] = True
            s["counter"] += 2
            exp = ["value", str(s["counter"])]
        elif name == "req_missing":
            exp = ERR
        elif name == "req_broken":
            exp = ["rt", "'broken'"]
        elif name == "req_syn":
            exp = ["syn"]
        elif name == "req_cyc":
            exp = ERR
        elif name == "loop_err":
            exp = ["rt", "'x'"]
        elif name == "loop_in_err":
            s["item"] = True
            exp = ["rt", "'bad'"]
        elif name == "loop_ls_err":
            s["item2"] = True
            exp = ["rt", "'bad2'"]
        elif name == "read_items":
            exp = ["value", "[" + ("'b'" if s.get("item") else "'no1'") +
                   ", " + ("'b'" if s.get("item2") else "'no2'") + "]"]
        elif name == "lib_def":
            s["total"] = True
            exp = ["value", "1"]
        elif name == "lib_call":
            exp = ERR if not s.get("total") else \
                ["value", str(s.get("sum") or 6)]
        elif name == "lib_shadow":
            s["sum"] = -1
            exp = ["value", "1"]
        elif name == "lib_shadow_fail":
            s["sum"] = -2
            exp = ["rt", "'late'"]
        elif name == "say":
            exp = ["value", "1"] if s.get("redir") else \
                ["value", "1", {"output": [[who, "hi\n"]]}]
        elif name in ("syn_sys", "syn_after"):
            exp = ["syn"]
        elif name == "read_sx":
            exp = ["value", "['nosa', 'nosl']"]
        elif name == "loop_def":
            s["seen"] = True
            exp = ["value", "20"]
        elif name == "loop_def_fail":
            s["seen2"] = True
            exp = ["rt", "'stop'"]
        elif name == "read_seen":
            exp = ["value", "[" + ("20" if s.get("seen") else "'no1'") +
                   ", " + ("20" if s.get("seen2") else "'no2'") + "]"]
        elif name == "def_out":
            s["redir"] = True
            exp = ["value", "1"]
        elif name == "say2":
            exp = ["value", "2"] if s.get("redir") else \
                ["value", "2", {"output": [[who, "pq\n"]]}]
        elif name in ("class_fail", "def_fail"):
            exp = ERR
        elif name == "read_pv":
            exp = ["value", "['nop', 'nov']"]
        elif name == "str_edit":
            exp = ["value", "'Xbc'"]
        elif name == "str_def":
            exp = ["value", "'abc'"]
        elif name == "seed":
            s["rnd"] = 0
            exp = ["value", "1"]
        elif name == "rnd":
            if s.get("rnd") is None:
                exp = ["value", None]      # unseeded: any number
            else:
                exp = ["value", str(random_sequence()[s["rnd"]])]
                s["rnd"] += 1
        elif name == "rnd_fail":
            exp = ERR
        elif name == "env2_read":
            exp = ["value", "[5, " + (str(s["a"]) if s["a"] is not None
                                      else "'noa'") + ", " +
                   ("3" if s.get("w") else "'now'") + "]"]
        elif name == "env2_fail":
            s["w"] = True
            exp = ["rt", "'boom'"]
        elif name == "env_def":
            s["z"] = True
            exp = ["value", "7"]
        elif name == "env_read":
            exp = ["value", "[" + ("7" if s["z"] else "'noz'") + ", " +
                   (str(s["a"]) if s["a"] is not None else "'noa'") +
                   ", 'nn']"]
        else:
            raise KeyError(name)
        return m, exp

    def judge(self, agg, history, cmd, expected, obs):
        ok = obs[0] == expected[0] and (
            len(expected) < 2 or expected[1] is None
            or (len(obs) > 1 and obs[1] == expected[1]))
        # output must arrive on the issuing interpreter's stream only
        eo = [x for x in expected if isinstance(x, dict)]
        oo = [x for x in obs if isinstance(x, dict)]
        if ok and json.loads(json.dumps(eo)) != json.loads(json.dumps(oo)):
            ok = False
        agg.cls((cmd[1], obs[0]))
        if not ok:
            agg.violation(
                {"cmd": cmd[1], "observed_kind": obs[0],
                 "observed": str(obs[1:])[:60]},
                {"history": [list(h) for h in history] + [list(cmd)],
                 "config": CONFIG[0]},
                expected, obs, size=len(history) * 100 + ORDER.index(cmd[1]))
        if agg.n["steps"] % 3000 == 1:
            agg.sample({"history": [f"{w}:{CMDS[c] if isinstance(CMDS[c], str) else 'E:' + CMDS[c][1]}"
                                    for w, c in list(history) + [cmd]],
                        "response": obs}, 3)


CONFIG = ["home"]


def explore_subtree(chunk):
    """worker: fresh state, replay the prefix (checked), fork-explore
    below"""
    agg = core.Agg()
    CONFIG[0] = chunk["config"]
    random_sequence()
    ex = Sessions(chunk["whos"], chunk["cmds"],
                  {tuple(p) for p in chunk["prefixes"]})
    noise = make_noise(chunk["config"])
    state = State(chunk["config"], chunk["whos"])
    ex.explore(state, new_model(), [], chunk["depth"], agg)
    del noise
    return agg


def explore_fresh(chunk):
    """reference explorer: every history replayed on fresh interpreters"""
    agg = core.Agg()
    CONFIG[0] = chunk["config"]
    random_sequence()
    ex = Sessions(chunk["whos"], chunk["cmds"])
    noise = make_noise(chunk["config"])
    for hist in chunk["histories"]:
        ex.replay_fresh(lambda: State(chunk["config"], ["A"]), new_model,
                        list(hist), agg)
        agg.count("fresh_histories")
    agg.n["steps"] += 0
    return agg


def replay(case, verbose=False):
    if "libcall" in case:
        d1, d2, before, later = run_twice(_sweep_session(), case["libcall"])
        if verbose:
            print(case["libcall"], d1, d2, before != (later or [None])[0])
        return later is not None and (d2 != d1 or later[0] != before
                                      or later[1] != before)
    CONFIG[0] = case.get("config", "home")
    write_modules(CONFIG[0])
    random_sequence()     # before any session under test exists
    ex = Sessions(["A", "B"], ORDER)
    hist = [tuple(h) for h in case["history"]]
    noise = make_noise(CONFIG[0])
    out = ex.replay_fresh(lambda: State(CONFIG[0]), new_model, hist)
    del noise
    bad = False
    for cmd, exp, obs in out:
        ok = obs[0] == exp[0] and (len(exp) < 2 or exp[1] is None or
                                   (len(obs) > 1 and obs[1] == exp[1]))
        eo = [x for x in exp if isinstance(x, dict)]
        oo = [x for x in obs if isinstance(x, dict)]
        ok = ok and json.loads(json.dumps(eo)) == json.loads(json.dumps(oo))
        if verbose:
            print(cmd, CMDS[cmd[1]], "expected", exp, "observed", obs,
                  "" if ok else "  <-- MISMATCH")
        bad = bad or not ok
    return bad


# ---- failing library calls leave nothing behind --------------------------------
_SW = {}
NOT_SOURCE = {"[1, itself]", "<*a = 1, _proto_ = itself*>",
              "<*_proto_ = cyclic*>", "10^400", "<<[1], <<2>>>>"}
PROBE = ("[1 + 1, sum([1, 2]), string(<<2, 1>>), length('ab'), "
         "type(stdout), do undefined_name_q catch all 'u' end]")


def _sweep_session():
    from mc import sweep
    if "s" not in _SW:
        _SW["s"] = sweep.SweepSession(legacy=True)
    return _SW["s"]


def fingerprint(sw):
    """what a later call could see of the interpreter: session and base
    symbols, module registry, module stack, generator state, a probe"""
    it = sw.session.interp
    base = it.base_environment
    F = core.ckl.functions
    o = core.outcome_of(lambda: it.interpret(PROBE, "probe"))
    return [sorted(it.environment.map.keys()), sorted(base.map.keys()),
            sorted(base.getModules().keys()), list(base.modulestack),
            F.seed, list(o)]


def call_text(fname, argnames):
    if "->" in fname:
        fname = "M_" + fname
    return fname + "(" + ", ".join(argnames) + ")"


def run_twice(sw, text):
    """-> (details of the first run, details of the second, state before,
    state after); details are None when the call succeeds"""
    it = sw.session.interp
    F = core.ckl.functions

    def once():
        sw.session._bind_streams()
        core.set_fuel(30000, 30000)
        core.arm(4.0)
        try:
            it.interpret(text, "session")
            return None
        except core.CklRuntimeError as e:
            return ["rt", repr(e.value), str(e.msg), str(e.pos),
                    [str(x) for x in e.stacktrace]]
        except core.CklSyntaxError as e:
            return ["syn", str(e.msg), str(e.pos)]
        except BaseException as e:
            return ["escape", type(e).__name__]   # C13's matter
        finally:
            core.disarm()
            core.set_fuel(10 ** 12, 10 ** 12)
    F.seed = 1
    sw.session._bind_streams()
    before = fingerprint(sw)
    d1 = once()
    if d1 is None or d1[0] == "escape":
        # a call that succeeds may change the session: start the next one
        # from a known generator state and without its definitions
        return d1, None, None, None
    mid = fingerprint(sw)
    d2 = once()
    after = fingerprint(sw)
    return d1, d2, before, [mid, after]


def explore_library_failures(chunk):
    from mc import sweep
    agg = core.Agg()
    sw = _sweep_session()
    fmap = dict(sw.funcs)
    names = [n for n, _ in sweep.POOL if n not in NOT_SOURCE]
    sub = [n for n in sweep.SUBPOOL if n not in NOT_SOURCE]
    for fname in chunk["funcs"]:
        n = sweep.nparams_of(fmap[fname])
        tuples = [()]
        if n >= 1:
            tuples += [(a,) for a in names]
        if n >= 2:
            pool2 = names if chunk["tier"] == "thorough" else sub[::2]
            tuples += [(a, b) for a in pool2 for b in pool2]
        for t in tuples:
            text = call_text(fname, t)
            d1, d2, before, later = run_twice(sw, text)
            agg.count("steps")
            agg.cls(("libcall", fname, d1[0] if d1 else "ok"))
            if later is None:
                continue          # the call succeeded
            bad = None
            if d2 != d1:
                bad = ("repeat-differs", d1, d2)
            elif later[0] != before:
                bad = ("residue", before, later[0])
            elif later[1] != before:
                bad = ("residue-after-repeat", before, later[1])
            if bad:
                agg.violation(
                    {"what": "library-call:" + bad[0], "callee": fname},
                    {"libcall": text},
                    bad[1], bad[2], size=len(text))
        agg.count("cases")
    return agg


def main(tier, seed):
    t0 = time.time()
    random_sequence()
    agg = core.Agg()
    core_cmds = ["def_a", "inc_a", "read_a", "def_f", "call_f", "partial",
                 "read_bc", "req_good", "bump", "req_broken", "req_cyc",
                 "env_def", "env_read", "req_as", "call_g", "loop_fn", "say",
                 "env2_read", "env2_fail", "class_fail", "def_fail",
                 "read_pv", "str_edit", "str_def", "seed", "rnd", "rnd_fail"]
    two = ["def_a", "inc_a", "read_a", "partial", "read_bc", "req_good",
           "bump", "req_missing", "env_def", "env_read", "say", "str_edit"]
    light = ("div0", "syntax", "req_syn", "req_missing", "loop_err",
             "read_q", "def_fail", "str_def", "seed", "rnd", "rnd_fail",
             "class_fail", "read_pv", "str_edit", "def_out", "say2",
             "syn_sys", "syn_after", "read_sx", "loop_def", "loop_def_fail",
             "read_seen", "lib_def", "lib_call", "lib_shadow",
             "lib_shadow_fail", "loop_in_err", "loop_ls_err", "read_items")
    # small closed groups of commands that only interact with each other
    groups = [(["seed", "rnd", "rnd_fail", "div0"], 4),
              (["def_out", "say", "say2", "partial", "div0"], 3),
              (["def_a", "syn_sys", "syn_after", "read_a", "read_sx"], 3),
              (["loop_def", "loop_def_fail", "read_seen", "div0"], 3),
              (["class_fail", "def_fail", "read_pv", "def_a", "str_edit",
                "str_def"], 3),
              (["lib_def", "lib_call", "lib_shadow", "lib_shadow_fail"], 4),
              (["loop_in_err", "loop_ls_err", "read_items", "div0"], 3)]
    if tier == "quick":
        plan1 = [(ORDER, 2), ([c for c in ORDER if c not in light], 3),
                 (["def_a", "read_a", "partial", "call_g",
                               "req_good", "bump", "req_broken",
                               "req_as", "env2_read", "env2_fail"], 4)] + \
            groups
        plan2 = [(two, 3)]
    else:
        # (sized from measured cost: about 2 ms per step, both module
        # configurations)
        plan1 = [(ORDER, 3), ([c for c in ORDER if c not in light], 4),
                 (["def_a", "inc_a", "read_a", "partial", "read_bc",
                   "req_good", "bump", "req_broken", "req_as", "env2_read",
                   "env2_fail", "call_g"], 5)] + \
            [(g, d + 1) for g, d in groups]
        plan2 = [(two, 4)]
    configs = ["home"] if tier == "quick" else ["home", "path"]
    for config in configs:
        write_modules(config)
        for cmds, depth in plan1:
            pre = [((("A", a)), (("A", b))) for a in cmds for b in cmds]
            jobs = [{"config": config, "whos": ["A"], "cmds": cmds,
                     "prefixes": c, "depth": depth}
                    for c in core.chunked(pre, core.NPROC * 4)]
            agg.merge(core.pmap(explore_subtree, jobs))
        # two interleaved interpreters, reduced alphabet that still covers
        # definitions, modules and failures
        for cmds, depth in plan2:
            pre2 = [((w1, a), (w2, b)) for w1 in "AB" for w2 in "AB"
                    for a in cmds for b in cmds]
            jobs = [{"config": config, "whos": ["A", "B"], "cmds": cmds,
                     "prefixes": c, "depth": depth}
                    for c in core.chunked(pre2, core.NPROC * 4)]
            agg.merge(core.pmap(explore_subtree, jobs))
        # cross-check of the snapshot engine against fresh replay
        fd = 2 if tier == "quick" else 3
        fcmds = core_cmds if tier == "quick" else ORDER
        hists = [tuple(("A", c) for c in t) for n in range(1, fd + 1)
                 for t in itertools.product(fcmds, repeat=n)]
        fa = core.pmap(explore_fresh, [
            {"config": config, "whos": ["A"], "cmds": ORDER, "histories": c}
            for c in core.chunked(hists, core.NPROC * 2)])
        agg.merge(fa)
    fnames = [f for f, _ in _sweep_session().funcs]
    agg.merge(core.pmap(explore_library_failures,
                        [{"funcs": c, "tier": tier}
                         for c in core.chunked(fnames, core.NPROC * 4)]))
    core.finish(
        PID, tier, seed, agg, t0,
        rule=(f"one interpreter: " + "; ".join(
                  f"all sequences of length <= {d} over {len(c)} commands"
                  for c, d in plan1) + f" (of {len(ORDER)} session "
              f"commands); two "
              f"interpreters: all sequences of length <= {plan2[0][1]} over "
              f"{len(plan2[0][0])} commands x every A/B tagging; module files in {configs}; fork-snapshot "
              f"trie (one fork per step), every response compared with the "
              f"session model; all histories of length <= "
              f"{2 if tier == 'quick' else 3} additionally replayed on "
              f"fresh interpreters (counter fresh_steps) under the same "
              f"oracle"),
        exhaustive=True,
        assumptions=["the loop variable left behind by an aborted for loop "
                     "is not probed", "one environment shared by two "
                     "interpreters and the global random seed are out of "
                     "scope"],
        replay_fn=replay,
    )
