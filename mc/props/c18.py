"""C18 String functions satisfy the algebra of strings.

E1: all strings of length <= 2 over a 20-character adversarial alphabet and
of length <= 3/5 over four 3-symbol alphabets (overlaps, separators, quotes,
whitespace); ALL pairs (and triples for replace) against host-string oracles
and algebraic laws; interpolation templates x formats x values against the
documented formatting rules.
"""
import itertools
import time

from mc import core

PID = "C18"

SIGMA = [" ", "\t", "\n", "\r", "a", "b", "A", "1", ",", "|", ".", "*", "+",
         "(", "[", "\\", "'", '"', "{", "€"]
SUBS = [["a", "b", ","], ["a", ".", "|"], ["a", "'", "\\"],
        ["a", " ", "\t"], ["a", "\n", " "]]

PRELUDE = "require String; require List;"
FORMS = {
    "contains": "contains(s, t)", "in": "t in s", "find": "find(s, t)",
    "starts_with": "starts_with(s, t)", "ends_with": "ends_with(s, t)",
    "op_contains": "s contains t", "op_starts": "s starts with t",
    "op_ends": "s ends with t", "op_not_contains": "s contains not t",
    "cat": "[length(s + t), s + '' == s, '' + s == s, "
           "(s + t)[length(s) to *] == t, substr(s + t, 0, length(s)) == s]",
    "split": "split(s, escape_pattern(t))",
    "split_join": "join(split(s, escape_pattern(t)), t)",
    "join_split": "split(join(l, t), escape_pattern(t))",
    "split_chars": "split(s, '')",
    "split2": "split2(s, escape_pattern(t), escape_pattern(u))",
    "replace": "replace(s, t, u)",
    "replace_same": "replace(s, t, t)",
    "reverse": "[String->reverse(String->reverse(s)), "
               "length(String->reverse(s)), String->reverse(s)]",
    "case": "[String->upper(String->upper(s)) == String->upper(s), "
            "String->lower(String->lower(s)) == String->lower(s), "
            "String->upper(s), String->lower(s)]",
    "lower1": "String->lower(s)", "upper1": "String->upper(s)",
    "trim": "[trim(trim(s)) == trim(s), trim(s)]",
    "lines": "[lines(s), unlines(lines(s))]",
    "words": "[words(s), unwords(words(s))]",
    "unwords": "words(unwords(l))",
    "unlines": "lines(unlines(l))",
    "words1": "words(s)", "lines1": "lines(s)",
    "repeat": "[s * n, length(s * n), s * n + s == s * (n + 1) or n < 0]",
    "chr_ord": "String->chr(String->ord(s))",
    "ord_chr": "String->ord(String->chr(n))",
    "length": "length(s)",
    "s": "s(t)",
    "sprintf1": "sprintf(t, v)",
    "sprintf2": "sprintf(t, v, w)",
    "sprintf3": "sprintf(t, v, w, x)",
    "sprintf12": "sprintf(t, 'a0', 'a1', 'a2', 'a3', 'a4', 'a5', 'a6', "
                 "'a7', 'a8', 'a9', 'a10', 'a11')",
}
_F = {}


def forms():
    if "f" not in _F:
        _F["f"] = core.Forms(FORMS, prelude=PRELUDE)
    return _F["f"]


def run(name, **kw):
    core.set_fuel(300000, 300000)
    try:
        return forms().ev(name, **{k: core.to_value(v)
                                   for k, v in kw.items()})
    finally:
        core.set_fuel(10 ** 12, 10 ** 12)


def expect(agg, name, kw, exp, law=None):
    r = run(name, **kw)
    agg.count("steps")
    agg.cls((name, r[0]))
    ok = r[0] == "value" and core.strict_eq(core.from_value(r[1]), exp)
    if not ok:
        agg.violation({"fn": name, "law": law or "host-oracle"},
                      {"fn": name, "args": kw, "exp": exp},
                      exp, core.show_raw(r), size=len(repr(kw)))


def host_split(s, sep):
    return [] if s == "" else s.split(sep)


def check_pair(agg, s, t):
    has = t in s
    expect(agg, "contains", {"s": s, "t": t}, has)
    expect(agg, "in", {"s": s, "t": t}, has)
    expect(agg, "op_contains", {"s": s, "t": t}, has)
    expect(agg, "op_not_contains", {"s": s, "t": t}, not has)
    expect(agg, "find", {"s": s, "t": t}, s.find(t))
    expect(agg, "starts_with", {"s": s, "t": t}, s.startswith(t))
    expect(agg, "op_starts", {"s": s, "t": t}, s.startswith(t))
    expect(agg, "ends_with", {"s": s, "t": t}, s.endswith(t))
    expect(agg, "op_ends", {"s": s, "t": t}, s.endswith(t))
    expect(agg, "cat", {"s": s, "t": t},
           [len(s) + len(t), True, True, True, True], "concatenation")
    if t != "":
        expect(agg, "split", {"s": s, "t": t}, host_split(s, t))
        expect(agg, "split_join", {"s": s, "t": t}, s,
               "join-inverts-split")
        expect(agg, "replace_same", {"s": s, "t": t}, s, "replace(s,a,a)")


def check_single(agg, s):
    expect(agg, "length", {"s": s}, len(s))
    expect(agg, "split_chars", {"s": s}, list(s))
    expect(agg, "reverse", {"s": s}, [s, len(s), s[::-1]],
           "reverse-involution")
    expect(agg, "case", {"s": s}, [True, True, s.upper(), s.lower()],
           "case-idempotent")
    expect(agg, "trim", {"s": s}, [True, s.strip()], "trim")
    if "\r" not in s:
        ls = host_split(s, "\n")
        expect(agg, "lines", {"s": s}, [ls, "\n".join(ls)], "lines/unlines")
    import re
    ws = [] if s == "" else re.split("[ \t\r\n]+", s)
    expect(agg, "words", {"s": s}, [ws, " ".join(ws)], "words/unwords")
    if len(s) >= 1:
        expect(agg, "chr_ord", {"s": s[0]}, s[0], "chr(ord(c))")


def check_replace(agg, s, a, b):
    if a == "":
        return
    expect(agg, "replace", {"s": s, "t": a, "u": b}, s.replace(a, b),
           "replace-all-left-to-right")


def case_characters():
    """every letter of the Latin-1, Latin Extended-A/B, Greek and Cyrillic
    blocks plus the special-casing characters"""
    cps = list(range(0xA0, 0x250)) + list(range(0x370, 0x400)) + \
        list(range(0x400, 0x460)) + [0x17F, 0x1E9E, 0xFB01, 0xFB00, 0x2126,
                                     0x212A, 0x10400, 0x10428]
    return [chr(c) for c in cps if chr(c).isalpha()]


def explore_case(chunk):
    """case mapping of single characters: a lowercase letter is a fixed
    point of lower, an uppercase letter of upper, and where the character
    has a one-to-one partner in the other case that partner is the result"""
    import unicodedata
    agg = core.Agg()
    for c in chunk["chars"]:
        cat = unicodedata.category(c)
        if cat == "Ll":
            expect(agg, "lower1", {"s": c}, c, "lowercase-letter-fixed")
        if cat == "Lu":
            expect(agg, "upper1", {"s": c}, c, "uppercase-letter-fixed")
        lo, up = c.lower(), c.upper()
        if len(lo) == 1 and lo != c and lo.upper() == c:
            expect(agg, "lower1", {"s": c}, lo, "one-to-one-partner")
            expect(agg, "lower1", {"s": "x" + c + "y"}, "x" + lo + "y",
                   "one-to-one-partner")
        if len(up) == 1 and up != c and up.lower() == c:
            expect(agg, "upper1", {"s": c}, up, "one-to-one-partner")
            expect(agg, "upper1", {"s": "x" + c + "y"}, "X" + up + "Y",
                   "one-to-one-partner")
        agg.count("cases")
    return agg


def separator_characters():
    """every character below U+00A1 plus the characters the host counts as
    white space or as line boundary beyond it"""
    extra = [0x1680, 0x2000, 0x2001, 0x2002, 0x2003, 0x2004, 0x2005, 0x2006,
             0x2007, 0x2008, 0x2009, 0x200A, 0x2028, 0x2029, 0x202F, 0x205F,
             0x3000, 0x180E, 0x200B, 0xFEFF]
    return [chr(c) for c in list(range(0, 0xA1)) + extra]


def explore_separators(chunk):
    """words splits at blanks, tabs and line ends and nowhere else, lines at
    line feeds only: one candidate character between two letters"""
    agg = core.Agg()
    for c in chunk["chars"]:
        s = "a" + c + "b"
        if c in " \t\r\n":
            expect(agg, "words1", {"s": s}, ["a", "b"], "words-separators")
        else:
            expect(agg, "words1", {"s": s}, [s], "words-separators")
        if c == "\n":
            expect(agg, "lines1", {"s": s}, ["a", "b"], "lines-separators")
        elif c != "\r":
            expect(agg, "lines1", {"s": s}, [s], "lines-separators")
        agg.count("cases")
    return agg


def explore_repeat(chunk):
    """s * n is n copies of s (none for n <= 0)"""
    agg = core.Agg()
    for s in chunk["strings"]:
        for n in range(-2, 4):
            rep = s * max(n, 0)
            expect(agg, "repeat", {"s": s, "n": n}, [rep, len(rep), True],
                   "repeat")
        agg.count("cases")
    return agg


def explore_pairs(chunk):
    agg = core.Agg()
    core.arm(3000)
    try:
        for s in chunk["rows"]:
            check_single(agg, s)
            for t in chunk["all"]:
                check_pair(agg, s, t)
            agg.count("cases")
            if agg.n["cases"] % 40 == 1:
                agg.sample({"s": s, "t": chunk["all"][-1],
                            "host_find": s.find(chunk["all"][-1])})
    finally:
        core.disarm()
    return agg


def explore_replace(chunk):
    agg = core.Agg()
    core.arm(3000)
    try:
        for s in chunk["rows"]:
            for a in chunk["parts"]:
                for b in chunk["parts"]:
                    check_replace(agg, s, a, b)
            for t in chunk["seps"]:
                for u in chunk["seps"]:
                    if t and u and t != u and t not in u and u not in t:
                        exp = [host_split(x, u) for x in host_split(s, t)]
                        expect(agg, "split2", {"s": s, "t": t, "u": u}, exp)
            agg.count("cases")
        for l in chunk["lists"]:
            for t in chunk["seps"]:
                if t and all(not (set(t) & set(w)) for w in l) and l and \
                        not (len(l) == 1 and l[0] == ""):
                    expect(agg, "join_split", {"l": l, "t": t}, l,
                           "split-inverts-join")
            if l and all(w and not any(c in w for c in " \t\r\n")
                         for w in l):
                expect(agg, "unwords", {"l": l}, l, "words(unwords)")
            if l and all("\n" not in w and "\r" not in w for w in l) and \
                    not (len(l) == 1 and l[0] == ""):
                expect(agg, "unlines", {"l": l}, l, "lines(unlines)")
            agg.count("cases")
    finally:
        core.disarm()
    return agg


# ---- interpolation ---------------------------------------------------------
VALUES = ["", "q", "it's", "a{b", "x}y", "\\", 0, 12, -7, 255, 1.2345678,
          2.5, True, None, [1], "{v}"]
FMTS = [None, "5", "-5", "05", ".2", "06.2", "x", "04x", ".0", "3", "-1"]
CHUNKS = ["", "a", " ", "'", "#", "\\", "€", "a b", "\"", "n = "]


def vtext(v):
    """text that interpolation inserts for a value (string() semantics:
    strings raw, NULL empty)"""
    if v is None:
        return ""
    if v is True:
        return "TRUE"
    if v is False:
        return "FALSE"
    if isinstance(v, str):
        return v
    if isinstance(v, float):
        return repr(v)
    if isinstance(v, list):
        return "[" + ", ".join(vrender(x) for x in v) + "]"
    return str(v)


def vrender(v):
    return repr(v) if not isinstance(v, str) else "'" + v + "'"


def apply_fmt(text, fmt):
    """the documented formatting rules; returns the SET of acceptable texts
    (the documentation shows rounding only for decimals that have more
    digits than requested, so for other numbers every usual spelling of the
    rounded value is accepted), or None when the format cannot apply to the
    value (expected: a language error)"""
    if fmt is None:
        return {text}
    spec = fmt
    leading, zeroes = True, False
    if spec.startswith("-"):
        leading = False
        spec = spec[1:]
    if spec.startswith("0"):
        zeroes, leading = True, False
        spec = spec[1:]
    base16 = spec.endswith("x")
    if base16:
        spec = spec[:-1]
    digits = -1
    if "." in spec:
        w, d = spec.split(".", 1)
        width, digits = int(w or "0"), int(d or "0")
    else:
        width = int(spec or "0")
    texts = {text}
    if base16:
        try:
            texts = {format(int(text), "x")}
        except ValueError:
            return None
    elif digits != -1:
        try:
            r = round(float(text), digits)
        except ValueError:
            return None
        texts = {str(r), format(r, ".%df" % digits)}
        if r == int(r):
            texts.add(str(int(r)))
        # a value exactly half way between two roundings: both accepted
        scaled = float(text) * 10 ** digits
        if abs(scaled - int(scaled)) == 0.5:
            for alt in (int(scaled) / 10 ** digits,
                        (int(scaled) + (1 if scaled > 0 else -1))
                        / 10 ** digits):
                texts |= {str(alt), format(alt, ".%df" % digits)}
                if alt == int(alt):
                    texts.add(str(int(alt)))
    out = set()
    for t in texts:
        while len(t) < width:
            if leading:
                t = " " + t
            elif zeroes:
                t = "0" + t
            else:
                t = t + " "
        out.add(t)
    return out


def explore_interp(chunk):
    agg = core.Agg()
    core.arm(3000)
    try:
        for v in chunk["values"]:
            for fmt in FMTS:
                ph = "{v}" if fmt is None else "{v#" + fmt + "}"
                ins = apply_fmt(vtext(v), fmt)
                for pre in CHUNKS:
                    for post in CHUNKS[:chunk["nchunks"]]:
                        tpl = pre + ph + post
                        r = run_s(tpl, v)
                        agg.count("steps")
                        agg.cls(("s", fmt, type(v).__name__, r[0]))
                        if ins is None:
                            ok = r[0] == "rt"
                            exp = "language error"
                        else:
                            exp = sorted(pre + i + post for i in ins)
                            ok = r[0] == "value" and any(core.strict_eq(
                                core.from_value(r[1]), e) for e in exp)
                        if not ok:
                            agg.violation(
                                {"fn": "s", "fmt": str(fmt),
                                 "vkind": type(v).__name__},
                                {"fn": "s", "tpl": tpl, "v": v}, exp,
                                core.show_raw(r), size=len(tpl))
                # two placeholders in one template
                tpl = ph + "|" + "{v}"
                r = run_s(tpl, v)
                agg.count("steps")
                if ins is not None:
                    exp = sorted(i + "|" + vtext(v) for i in ins)
                    if not (r[0] == "value" and any(core.strict_eq(
                            core.from_value(r[1]), e) for e in exp)):
                        agg.violation(
                            {"fn": "s", "fmt": str(fmt),
                             "vkind": type(v).__name__, "two": True},
                            {"fn": "s", "tpl": tpl, "v": v}, exp,
                            core.show_raw(r), size=len(tpl))
            agg.count("cases")
        # sprintf: every permutation of <= 3 argument positions
        for vals in chunk["sprintf"]:
            n = len(vals)
            for perm in itertools.permutations(range(n)):
                for fmt in (None, "5", "-5", "05"):
                    tpl = " ".join(
                        "{%d}" % i if fmt is None else "{%d#%s}" % (i, fmt)
                        for i in perm)
                    kw = dict(zip("vwx", vals))
                    r = run("sprintf%d" % n, t=tpl, **kw)
                    agg.count("steps")
                    parts = [sorted(apply_fmt(vtext(vals[i]), fmt))[0]
                             for i in perm]
                    exp = " ".join(parts)
                    agg.cls(("sprintf", n, fmt, r[0]))
                    if not (r[0] == "value" and core.strict_eq(
                            core.from_value(r[1]), exp)):
                        agg.violation(
                            {"fn": "sprintf", "fmt": str(fmt),
                             "kinds": ",".join(type(x).__name__
                                               for x in vals)},
                            {"fn": "sprintf", "tpl": tpl,
                             "vals": list(vals)}, exp, core.show_raw(r),
                            size=len(tpl) + len(repr(vals)))
            agg.count("cases")
    finally:
        core.disarm()
    return agg


def explore_sprintf_many(chunk):
    """positions with two digits: {1} is not a prefix of {10}; every pair
    of positions 0..11, plain and with a width"""
    agg = core.Agg()
    for i in range(12):
        for j in range(12):
            for fmt in (None, "5", "-5"):
                def ph(k):
                    return "{%d}" % k if fmt is None else "{%d#%s}" % (k, fmt)
                tpl = ph(i) + "|" + ph(j) + "|" + ph(i)
                parts = [sorted(apply_fmt("a%d" % k, fmt))[0]
                         for k in (i, j, i)]
                exp = "|".join(parts)
                r = run("sprintf12", t=tpl)
                agg.count("steps")
                agg.cls(("sprintf12", fmt, r[0]))
                if not (r[0] == "value" and core.strict_eq(
                        core.from_value(r[1]), exp)):
                    agg.violation(
                        {"fn": "sprintf12", "fmt": str(fmt)},
                        {"fn": "sprintf12", "args": {"t": tpl}, "exp": exp},
                        exp, core.show_raw(r), size=len(tpl))
    agg.count("cases")
    return agg


def run_s(tpl, v):
    return run("s", t=tpl, v=v)


def replay(case, verbose=False):
    agg = core.Agg()
    fn = case["fn"]
    if fn == "s":
        r = run_s(case["tpl"], case["v"])
        a = explore_interp({"values": [case["v"]], "nchunks": len(CHUNKS),
                            "sprintf": []})
        agg.merge(a)
        if verbose:
            print(repr(case["tpl"]), case["v"], "->", core.show_raw(r))
    elif fn == "sprintf":
        a = explore_interp({"values": [], "nchunks": 0,
                            "sprintf": [tuple(case["vals"])]})
        agg.merge(a)
    else:
        kw = case["args"]
        r = run(fn, **kw)
        ok = r[0] == "value" and core.strict_eq(core.from_value(r[1]),
                                                case["exp"])
        if verbose:
            print(FORMS[fn], kw, "->", core.show_raw(r), "expected",
                  case["exp"])
        return not ok
    if verbose:
        for k, (sz, v) in agg.viol.items():
            print(v)
    return bool(agg.viol)


def strings_over(alpha, maxlen):
    return ["".join(t) for n in range(maxlen + 1)
            for t in itertools.product(alpha, repeat=n)]


def main(tier, seed):
    t0 = time.time()
    xl, yl = (1, 3) if tier == "quick" else (2, 4)
    X = strings_over(SIGMA, xl)
    Y = []
    for sub in SUBS:
        Y += strings_over(sub, yl)
    allstr = list(dict.fromkeys(X + Y))
    agg = core.pmap(explore_pairs, [{"rows": c, "all": allstr}
                                    for c in core.chunked(allstr,
                                                          core.NPROC * 4)])
    rjobs = []
    for sub in SUBS:
        ys = strings_over(sub, 3 if tier == "quick" else 4)
        parts = strings_over(sub, 2)
        lists = [list(t) for n in range(0, 4)
                 for t in itertools.product(strings_over(sub, 1) + ["ab"],
                                            repeat=n)]
        seps = SIGMA + [",,", "ab", "a,", "|.", "\\'", " \t"]
        for c in core.chunked(ys, 8):
            rjobs.append({"rows": c, "parts": parts, "seps": seps,
                          "lists": []})
        rjobs.append({"rows": [], "parts": [], "seps": seps,
                      "lists": lists})
    agg.merge(core.pmap(explore_replace, rjobs))
    agg.merge(core.pmap(explore_sprintf_many, [{}]))
    agg.merge(core.pmap(explore_case, [
        {"chars": c} for c in core.chunked(case_characters(), core.NPROC)]))
    agg.merge(core.pmap(explore_separators, [
        {"chars": c} for c in core.chunked(separator_characters(),
                                           core.NPROC)]))
    agg.merge(core.pmap(explore_repeat, [
        {"strings": c} for c in core.chunked(
            ["", "a", "ab", "'", " ", "a\nb", "\u00e9x"], 4)]))
    # chr/ord on boundary code points
    for n in (0, 9, 10, 39, 127, 128, 255, 256, 0xD7FF, 0xE000, 0xFFFF,
              0x10000, 0x10FFFF):
        expect(agg, "ord_chr", {"n": n}, n, "ord(chr(n))")
    sp = []
    vs = VALUES if tier == "thorough" else VALUES[:12]
    for n in (1, 2, 3):
        pool = vs if n < 3 else vs[::3]
        sp += list(itertools.product(pool, repeat=n))
    ijobs = [{"values": [v], "nchunks": len(CHUNKS) if tier == "thorough"
              else 4, "sprintf": []} for v in VALUES]
    for c in core.chunked(sp, core.NPROC * 2):
        ijobs.append({"values": [], "nchunks": 0, "sprintf": c})
    agg.merge(core.pmap(explore_interp, ijobs))
    core.finish(
        PID, tier, seed, agg, t0,
        rule=(f"{len(allstr)} strings (all of length <= {xl} over "
              f"{len(SIGMA)} adversarial characters, all of length <= {yl} "
              f"over 4 three-symbol alphabets): all ordered pairs x 13 "
              f"laws, all (s, a, b) replace triples per alphabet, split2 and "
              f"join/split/lines/words inverses on generated lists; "
              f"interpolation: {len(VALUES)} values x {len(FMTS)} formats x "
              f"chunk pairs through s(), sprintf with every permutation of "
              f"<= 3 argument positions x 4 formats; case mapping of "
              f"{len(case_characters())} single letters (Latin-1, Latin "
              f"Extended, Greek, Cyrillic, special casing)"),
        exhaustive=True,
        assumptions=["regular-expression separators other than literal "
                     "separators through escape_pattern are out of scope",
                     "template text chunks contain no braces (the placement "
                     "of stray braces is not defined by the documentation)"],
        replay_fn=replay,
    )
