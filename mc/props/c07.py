"""C07 Comparison is a total order per kind and sorting agrees with it.

E1: per kind, ALL ordered pairs are compared on the real values (API and
program forms); ALL triples are checked for transitivity on the resulting
relation; ALL lists up to length 5/7 over six tagged elements with three key
classes go through `sorted` with and without key/cmp; ALL insertion orders of
all <=4-subsets of per-kind pools are enumerated through sets and maps.
"""
import functools
import itertools
import time

from mc import core
from mc.ref import refvalue as R

PID = "C07"

STR_ALPHA = [" ", "!", '"', "#", "'", "(", "0", "A", "a", "é", "\\",
             "\t"]


def kind_pools():
    nums = [-2.5, -2, -2.0, -1.5, -1, -1.0, -0.5, -0.0, 0, 0.0, 0.5, 1, 1.0,
            1.5, 2, 2.0, 2.5, 3, 2 ** 53 - 1, 2 ** 53, 2.0 ** 53,
            2 ** 53 + 1, -2 ** 53 - 1, -2.0 ** 53, 1e30, 10 ** 30,
            10 ** 30 + 1, 2 ** 63, -2 ** 63, -1e30, 1e-9, -1e-9]
    strs = [""] + STR_ALPHA + [a + b for a in STR_ALPHA for b in STR_ALPHA]
    strs += ["a  ", "a b", "a'b", "a' ", "ab", "aba", "abab", "a''", "''a'",
             "aa\t", "aaa", "aaaa", "ééa", "Aa a"]
    bools = [False, True]
    dates = [("date", "19991231235959"), ("date", "20000101000000"),
             ("date", "20000101000001"), ("date", "20200229120000"),
             ("date", "20200301000000"), ("date", "99991231235959"),
             ("date", "19000101000000"),
             # instants inside one second; years with fewer than 4 digits
             ("date", "20000101000000.000001"),
             ("date", "20000101000000.000002"),
             ("date", "20000101000000.500000"),
             ("date", "09991231235959"), ("date", "00010101000000")]
    numl = [list(t) for n in range(4)
            for t in itertools.product([1, 1.0, 2], repeat=n)]
    strl = [list(t) for n in range(4)
            for t in itertools.product(["a", "'", "b "], repeat=n)]
    return {"numeric": nums, "string": strs, "boolean": bools,
            "date": dates, "list-of-numbers": numl,
            "list-of-strings": strl}


FORMS = {
    "lt": "a < b", "le": "a <= b", "gt": "a > b", "ge": "a >= b",
    # exactly one of <, ==, > through the operators of the language
    "tri": "[a < b, a == b, a > b, a != b, equals(a, b)]",
    "cmp": "compare(a, b)", "min": "min(a, b)", "max": "max(a, b)",
    "less": "less(a, b)", "greater": "greater(a, b)",
    "sorted": "sorted(l)",
    "sorted_key": "sorted(l, key = fn(x) x[0])",
    "sorted_cmp": "sorted(l, cmp = fn(a, b) compare(b, a))",
    "sorted_both": "sorted(l, cmp = fn(a, b) compare(b, a), "
                   "key = fn(x) x[0])",
    "sorted_pos": "sorted(l, fn(a, b) compare(b, a), fn(x) x[0])",
    "set_list": "list(s)",
    # spreading a set: into a list literal (alone and next to other
    # elements), into call arguments, destructuring it
    "set_spread": "[...s]",
    "set_spread2": "do def r = ['h', ...s]; delete_at(r, 0); r end",
    "set_spread_call": "(fn(a...) a...)(...s)",
    "set_sorted": "sorted(s)",
    # taking a set apart by position: definition, assignment, loop variables
    "set_destr1": "do def [p] = s; [p] end",
    "set_destr2": "do def [p, q] = s; [p, q] end",
    "set_destr3": "do def [p, q, r] = s; [p, q, r] end",
    "set_destr4": "do def [p, q, r, t] = s; [p, q, r, t] end",
    "set_assign2": "do def p = 0; def q = 0; [p, q] = s; [p, q] end",
    "set_assign3": "do def p = 0; def q = 0; def r = 0; [p, q, r] = s; "
                   "[p, q, r] end",
    "set_for2": "do def o = []; for [p, q] in [s] do o = [p, q]; end; o end",
    "set_for3": "do def o = []; for [p, q, r] in [s] do o = [p, q, r]; end; "
                "o end",
    "set_comp": "[x for x in s]",
    "set_for": "do def r = []; for x in s do append(r, x); end; r end",
    "set_str": "string(s)",
    "map_keys": "[k for k in keys m]",
    "map_for": "do def r = []; for k in keys m do append(r, k); end; r end",
    "map_entries": "[e[0] for e in entries m]",
    "map_set": "list(set(m))",
    "map_str": "string(m)",
    "list_min": "min(l)", "list_max": "max(l)",
    # through a key function: the element is wrapped, the key unwraps it
    "list_min_key": "min([[x, 'w'] for x in l], key = fn(p) p[0])[0]",
    "list_max_key": "max([[x, 'w'] for x in l], key = fn(p) p[0])[0]",
}
_F = {}


def forms():
    if "f" not in _F:
        _F["f"] = core.Forms(FORMS)
    return _F["f"]


def boolval(o):
    V = core.ckl.values
    if o[0] == "value" and o[1] is V.TRUE:
        return True
    if o[0] == "value" and o[1] is V.FALSE:
        return False
    return None


def explore_pairs(chunk):
    agg = core.Agg()
    kindname, pool = chunk["kind"], chunk["pool"]
    f = forms()
    rows = {}
    core.arm(900)
    try:
        for i in chunk["rows"]:
            row = []
            for j in range(len(pool)):
                pa, pb = pool[i], pool[j]
                a, b = core.to_value(pa), core.to_value(pb)
                exp_lt = R.less(pa, pb)
                exp_eq = R.equal(pa, pb)
                exp_gt = R.less(pb, pa)
                o = core.outcome_raw(lambda: (a < b, a == b, a > b, a <= b,
                                              a >= b))
                agg.count("steps")

                def bad(law, expd, obs):
                    agg.violation({"law": law, "kind": kindname},
                                  {"t": "pair", "kind": kindname,
                                   "a": pa, "b": pb, "law": law}, expd, obs)
                if o[0] != "value":
                    bad("comparison-raises", "booleans", list(o[:2]))
                    row.append(False)
                    continue
                lt, eq, gt, le, ge = [bool(x) for x in o[1]]
                row.append(lt)
                agg.cls((kindname, lt, eq, gt))
                if [lt, eq, gt].count(True) != 1:
                    bad("exactly-one-of-lt-eq-gt", [exp_lt, exp_eq, exp_gt],
                        [lt, eq, gt])
                if lt != exp_lt:
                    bad("lt-agrees-with-definition", exp_lt, lt)
                if gt != exp_gt:
                    bad("gt-agrees-with-definition", exp_gt, gt)
                if le != (exp_lt or exp_eq):
                    bad("le-consistent", exp_lt or exp_eq, le)
                if ge != (exp_gt or exp_eq):
                    bad("ge-consistent", exp_gt or exp_eq, ge)
                for name, want in (("lt", exp_lt), ("less", exp_lt),
                                   ("le", exp_lt or exp_eq),
                                   ("gt", exp_gt), ("greater", exp_gt),
                                   ("ge", exp_gt or exp_eq)):
                    r = f.ev(name, a=a, b=b)
                    agg.count("steps")
                    if boolval(r) is not want:
                        bad("program:" + name, want, core.show_raw(r))
                r = f.ev("tri", a=a, b=b)
                agg.count("steps")
                want = [exp_lt, exp_eq, exp_gt, not exp_eq, exp_eq]
                if not (r[0] == "value" and core.strict_eq(
                        core.from_value(r[1]), want)):
                    bad("program:exactly-one-of-lt-eq-gt", want,
                        core.show_raw(r))
                r = f.ev("cmp", a=a, b=b)
                want = -1 if exp_lt else (1 if exp_gt else 0)
                if not (r[0] == "value" and core.strict_eq(
                        core.from_value(r[1]), want)):
                    bad("program:compare", want, core.show_raw(r))
                # min/max: result equals the smaller/larger operand (either
                # one when they are equal)
                for name, pick in (("min", pa if exp_lt else pb),
                                   ("max", pa if exp_gt else pb)):
                    r = f.ev(name, a=a, b=b)
                    agg.count("steps")
                    okv = r[0] == "value" and (
                        R.equal(_plain(r[1]), pick))
                    if not okv:
                        bad("program:" + name, pick, core.show_raw(r))
            rows[i] = row
            agg.count("cases")
    finally:
        core.disarm()
    agg.rows = rows
    return agg


def _plain(v):
    return _untag(core.from_value(v))


def _untag(x):
    return x


ELEMS = [[1, "a"], [1.0, "b"], [2, "a"], [2, "b"], [3, "a"], [3, "b"]]


def pycmp(x, y):
    return -1 if R.less(x, y) else (1 if R.less(y, x) else 0)


def expected_sorted(lst, variant):
    if variant == "sorted":
        return sorted(lst, key=functools.cmp_to_key(pycmp))
    if variant == "sorted_key":
        return sorted(lst, key=functools.cmp_to_key(
            lambda x, y: pycmp(x[0], y[0])))
    if variant == "sorted_cmp":
        return sorted(lst, key=functools.cmp_to_key(
            lambda x, y: pycmp(y, x)))
    return sorted(lst, key=functools.cmp_to_key(
        lambda x, y: pycmp(y[0], x[0])))


def explore_sorted(chunk):
    agg = core.Agg()
    f = forms()
    n = chunk["n"]
    core.arm(3000)
    try:
        for first in chunk["firsts"]:
            rests = itertools.product(range(6), repeat=n - 1) if n else [()]
            if n == 0 and first != 0:
                continue
            for rest in rests:
                idx = ((first,) + rest) if n else ()
                lst = [ELEMS[k] for k in idx]
                for variant in ("sorted", "sorted_key", "sorted_cmp",
                                "sorted_both", "sorted_pos"):
                    lv = core.to_value(lst)
                    before = repr(lv)
                    r = f.ev(variant, l=lv)
                    agg.count("steps")
                    exp = expected_sorted(
                        lst, "sorted_both" if variant == "sorted_pos"
                        else variant)
                    ok = r[0] == "value" and core.strict_eq(
                        core.from_value(r[1]), exp)
                    agg.cls((variant, n, r[0]))
                    if not ok:
                        agg.violation(
                            {"law": "sorted:" + variant},
                            {"t": "sorted", "variant": variant, "l": lst},
                            exp, core.show_raw(r), size=len(lst))
                    elif repr(lv) != before:
                        agg.violation(
                            {"law": "sorted-modifies-input:" + variant},
                            {"t": "sorted", "variant": variant, "l": lst},
                            before, repr(lv), size=len(lst))
                agg.count("cases")
                if agg.n["cases"] % 3000 == 1:
                    agg.sample({"sorted_key": lst,
                                "expected": expected_sorted(lst,
                                                            "sorted_key")})
    finally:
        core.disarm()
    return agg


ENUM_POOLS = {
    "numeric": [2, 1.0, -1, -1.5, -0.5, 0, 1.5, 2 ** 53 + 1],
    "string": [" a", "'", "a", "B", "a b", "\t"],
    "date": [("date", "20000101000000"), ("date", "19991231235959"),
             ("date", "20200229120000"), ("date", "20000101000001"),
             ("date", "20000101000000.000002"),
             ("date", "20000101000000.000001"),
             ("date", "09991231235959")],
    "boolean": [True, False],
    "list-of-numbers": [[1], [1, 2], [0.5, 3], [], [2]],
}


def explore_enum(chunk):
    """sets/map keys enumerate in the order for every insertion order"""
    agg = core.Agg()
    f = forms()
    V = core.ckl.values
    for kindname, subset in chunk["subsets"]:
        exp = sorted(subset, key=functools.cmp_to_key(pycmp))
        for perm in itertools.permutations(subset):
            s = V.ValueSet()
            m = V.ValueMap()
            for x in perm:
                s.addItem(core.to_value(x))
                m.addItem(core.to_value(x), V.ValueInt(0))
            for name, arg in (("set_list", "s"), ("set_comp", "s"),
                              ("set_spread", "s"), ("set_spread2", "s"),
                              ("set_spread_call", "s"), ("set_sorted", "s"),
                              ("set_for", "s"), ("map_keys", "m"),
                              ("map_for", "m"), ("map_entries", "m"),
                              ("map_set", "m")) + tuple(
                    (nm, "s") for nm in ("set_destr%d" % len(subset),
                                         "set_assign%d" % len(subset),
                                         "set_for%d" % len(subset))
                    if nm in FORMS and len(set(map(repr, exp))) ==
                    len(subset)):
                r = f.ev(name, **{arg: s if arg == "s" else m})
                agg.count("steps")
                ok = r[0] == "value" and core.strict_eq(
                    core.from_value(r[1]), exp)
                agg.cls(("enum", name, kindname, len(subset)))
                if not ok:
                    agg.violation(
                        {"law": "enumeration-order:" + name,
                         "kind": kindname},
                        {"t": "enum", "kind": kindname, "form": name,
                         "perm": list(perm)}, exp, core.show_raw(r),
                        size=len(perm))
            # rendering lists the elements in the same order
            r = f.ev("set_str", s=s)
            texts = [repr(core.to_value(x)) for x in exp]
            want = "<<" + ", ".join(texts) + ">>"
            agg.count("steps")
            if not (r[0] == "value" and r[1].value == want):
                agg.violation(
                    {"law": "rendering-order:set", "kind": kindname},
                    {"t": "enum", "kind": kindname, "form": "set_str",
                     "perm": list(perm)}, want, core.show_raw(r),
                    size=len(perm))
            r = f.ev("map_str", m=m)
            want = "<<<" + ", ".join(t + " => 0" for t in texts) + ">>>"
            if not (r[0] == "value" and r[1].value == want):
                agg.violation(
                    {"law": "rendering-order:map", "kind": kindname},
                    {"t": "enum", "kind": kindname, "form": "map_str",
                     "perm": list(perm)}, want, core.show_raw(r),
                    size=len(perm))
        # min/max of a list are invariant and equal the extremes
        if subset:
            for perm in itertools.permutations(subset):
                for name, pick in (("list_min", exp[0]),
                                   ("list_max", exp[-1]),
                                   ("list_min_key", exp[0]),
                                   ("list_max_key", exp[-1])):
                    r = f.ev(name, l=core.to_value(list(perm)))
                    agg.count("steps")
                    if not (r[0] == "value" and
                            R.equal(core.from_value(r[1]), pick)):
                        agg.violation(
                            {"law": name, "kind": kindname},
                            {"t": "enum", "kind": kindname, "form": name,
                             "perm": list(perm)}, pick, core.show_raw(r),
                            size=len(perm))
        agg.count("cases")
    return agg


def _fix(x):
    if isinstance(x, list):
        if len(x) == 2 and x[0] == "date" and isinstance(x[1], str):
            return ("date", x[1])
        return [_fix(e) for e in x]
    return x


def replay(case, verbose=False):
    t = case["t"]
    if t == "pair":
        a = explore_pairs({"kind": case["kind"],
                           "pool": [_fix(case["a"]), _fix(case["b"])],
                           "rows": [0, 1]})
    elif t == "triple":
        v = [core.to_value(_fix(case[k])) for k in "abc"]
        bad = (v[0] < v[1]) and (v[1] < v[2]) and not (v[0] < v[2])
        if verbose:
            print("transitivity broken:", bad)
        return bool(bad)
    elif t == "sorted":
        f = forms()
        lst = [_fix(e) for e in case["l"]]
        variant = case["variant"]
        r = f.ev(variant, l=core.to_value(lst))
        exp = expected_sorted(lst, "sorted_both" if variant == "sorted_pos"
                              else variant)
        if verbose:
            print("sorted", variant, lst, "->", core.show_raw(r), "expected",
                  exp)
        return not (r[0] == "value" and core.strict_eq(
            core.from_value(r[1]), exp))
    else:
        a = explore_enum({"subsets": [(case["kind"],
                                       tuple(_fix(e) for e in case["perm"]))]})
    if verbose:
        for k, (sz, v) in a.viol.items():
            print(v)
    return bool(a.viol)


def _pairs_with_rows(chunk):
    core.install_fuel()
    a = explore_pairs(chunk)
    rows = a.rows
    del a.rows
    return a, rows


def main(tier, seed):
    t0 = time.time()
    pools = kind_pools()
    jobs = []
    for kindname, pool in pools.items():
        for c in core.chunked(list(range(len(pool))), core.NPROC):
            jobs.append({"kind": kindname, "pool": pool, "rows": c})
    import multiprocessing
    ctx = multiprocessing.get_context("fork")
    with ctx.Pool(core.NPROC) as p:
        res = p.map(_pairs_with_rows, jobs, 1)
    agg = core.Agg()
    mats = {k: [None] * len(p) for k, p in pools.items()}
    for job, (a, rows) in zip(jobs, res):
        agg.merge(a)
        for i, r in rows.items():
            mats[job["kind"]][i] = r
    triples = 0
    for kindname, M in mats.items():
        pool = pools[kindname]
        n = len(pool)
        triples += n ** 3
        ltidx = [[j for j in range(n) if M[i][j]] for i in range(n)]
        for a in range(n):
            if M[a][a]:
                agg.violation({"law": "irreflexive", "kind": kindname},
                              {"t": "pair", "kind": kindname, "a": pool[a],
                               "b": pool[a], "law": "irreflexive"},
                              False, True)
            for b in ltidx[a]:
                if M[b][a]:
                    agg.violation({"law": "asymmetric", "kind": kindname},
                                  {"t": "pair", "kind": kindname,
                                   "a": pool[a], "b": pool[b],
                                   "law": "asymmetric"}, False, True)
                for c in ltidx[b]:
                    if not M[a][c]:
                        agg.violation(
                            {"law": "transitive", "kind": kindname},
                            {"t": "triple", "kind": kindname, "a": pool[a],
                             "b": pool[b], "c": pool[c]}, True, False)
    agg.n["triples_checked"] = triples
    maxn = 5 if tier == "quick" else 7
    sjobs = []
    for n in range(0, maxn + 1):
        if n <= 4:
            sjobs.append({"n": n, "firsts": list(range(6))})
        else:
            for fi in range(6):
                sjobs.append({"n": n, "firsts": [fi]})
    if maxn == 7:
        # split the largest level further: first two positions
        sjobs = [j for j in sjobs if j["n"] != 7]
        for fi in range(6):
            sjobs.append({"n": 7, "firsts": [fi]})
    agg.merge(core.pmap(explore_sorted, sjobs))
    subsets = []
    for kindname, pool in ENUM_POOLS.items():
        for k in range(0, 5):
            for c in itertools.combinations(pool, k):
                subsets.append((kindname, c))
    agg.merge(core.pmap(explore_enum, [{"subsets": c} for c in
                                       core.chunked(subsets, core.NPROC * 2)]))
    sizes = {k: len(v) for k, v in pools.items()}
    core.finish(
        PID, tier, seed, agg, t0,
        rule=(f"per-kind pools {sizes}: all ordered pairs on the value API "
              f"and 9 program forms, all {triples} ordered triples for "
              f"transitivity; sorted on all lists of length <= {maxn} over 6 "
              f"tagged elements with 3 key classes x 5 call variants; all "
              f"insertion orders of all <= 4-subsets of per-kind enumeration "
              f"pools through 13 set/map enumeration paths"),
        exhaustive=True,
        assumptions=["ordering across kinds, NaN, and ordering of "
                     "sets/maps/objects among themselves are not claimed"],
        replay_fn=replay,
        extra={"triples": triples, "sorted_max_len": maxn},
    )
