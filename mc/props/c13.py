"""C13 Only language-level errors escape evaluation.

E1: (1) call sweep - every function of the (secure, legacy) base environment
and of every bundled module x every argument tuple of arity <= 3 from a
30-value pool; (2) form sweep - every operator / indexing / iteration /
destructuring / literal form x pool^holes.  Oracle: the outcome is a value or
a CklRuntimeError whose error value is a language value and which `catch all`
intercepts; never a host exception, a syntax error out of evaluation, or a
hang (deterministic fuel + wall-clock backstop).
"""
import itertools
import time

from mc import core, sweep

PID = "C13"

IS_PREDS = ["empty", "zero", "negative", "numerical", "alphanumerical",
            "numerical min_len 1", "alphanumerical exact_len 2",
            "date", "date with hour", "time", "string", "int", "decimal",
            "boolean", "pattern", "None", "func", "input", "output", "list",
            "set", "map", "object", "node"]

FORMS2 = {}  # name -> (source, holes)


def _add(name, src, holes):
    FORMS2[name] = (src, holes)


for _op in ["+", "-", "*", "/", "%", "==", "!=", "<>", "<", "<=", ">", ">=",
            "is", "is not", "and", "or", "in", "not in", "is in",
            "is not in", "starts with", "starts not with", "ends with",
            "ends not with", "contains", "contains not", "matches",
            "matches not"]:
    _add("bin " + _op, f"x {_op} y", 2)
for _p in IS_PREDS:
    _add("is " + _p, f"x is {_p}", 1)
    _add("is not " + _p, f"x is not {_p}", 1)
_add("neg", "-x", 1)
_add("plus", "+x", 1)
_add("not", "not x", 1)
_add("idx", "x[y]", 2)
_add("idx default", "x[y, z]", 3)
_add("slice", "x[y to z]", 3)
_add("slice end", "x[y to *]", 2)
_add("idx assign", "x[y] = z", 3)
for _op in ["+=", "-=", "*=", "/=", "%="]:
    _add("idx " + _op, f"x[y] {_op} z", 3)
    _add("var " + _op, f"do def v = x; v {_op} y; end", 2)
    _add("member " + _op, f"x->a {_op} y", 2)
_add("member", "x->a", 1)
_add("member assign", "x->a = y", 2)
_add("member call", "x->f()", 1)
_add("member call arg", "x->f(y)", 2)
_add("member call undefined", "x->nope(y)", 2)
_add("pipe", "x !> y()", 2)
_add("pipe arg", "x !> y(z)", 3)
_add("call0", "x()", 1)
_add("call1", "x(y)", 2)
_add("call2", "x(y, z)", 3)
_add("call spread", "x(...y)", 2)
_add("call named", "x(a = y)", 2)
_add("list spread", "[...x]", 1)
_add("list spread2", "[1, ...x, ...y]", 2)
_add("for", "for e in x do e end", 1)
_add("for2", "for [a, b] in x do a end", 1)
_add("for3", "for [a, b, c] in x do a end", 1)
_add("for dup", "for [a, a] in x do a end", 1)
_add("def destr dup", "do def [a, a] = x; a end", 1)
_add("assign destr dup", "do def a = 0; [a, a] = x; a end", 1)
# early continuation of a loop over every iterable kind (input streams too)
_add("for continue", "do def n = 0; for k in x do n += 1; "
     "if n > 0 then continue; n += 10; end; n end", 1)
_add("for continue entries", "do def n = 0; for k in entries x do n += 1; "
     "if n > 0 then continue; n += 10; end; n end", 1)
_add("for break", "do def n = 0; for k in x do n += 1; "
     "if n > 1 then break; end; n end", 1)
_add("mutate in for", "do def v = x; for k in v do v[string(k) + 'x'] = 1; "
     "end; 1 end", 1)
_add("mutate in for keys", "do def v = x; for k in keys v do "
     "v[string(k) + 'x'] = 1; end; 1 end", 1)
_add("remove in for", "do def v = x; for k in v do remove(v, k); end; 1 end",
     1)
_add("mutate in comprehension", "do def v = x; [put(v, [k], 1) for k in v] "
     "end", 1)
for _sel in ("keys", "values", "entries"):
    _add("mutate in comprehension " + _sel,
         "do def v = x; def g(k) do v[string(k) + 'x'] = 1; k end; "
         "[g(k) for k in " + _sel + " v] end", 1)
    _add("lc parallel " + _sel, "[[a, b] for a in " + _sel + " x also for b "
         "in " + _sel + " y]", 2)
    _add("sc parallel " + _sel, "<<[a, b] for a in " + _sel + " x also for b "
         "in " + _sel + " y>>", 2)
    _add("lc product " + _sel, "[[a, b] for a in " + _sel + " x for b in " +
         _sel + " y]", 2)
# a host exception deep inside calls without arguments (exhausted host stack)
_add("recursion without arguments", "do def down() do x; down() end; "
     "down() end", 1)
_add("recursion with argument", "do def down(n) do x; down(n + 1) end; "
     "down(0) end", 1)
_add("while later", "do def c = TRUE; def n = 0; while c do n += 1; c = x; "
     "if n > 3 then break; end; n end", 1)
_add("assign undefined", "do never_defined_q = x end", 1)
_add("opassign undefined", "do never_defined_q += x end", 1)
_add("destr assign undefined", "do [never_defined_q] = x end", 1)
_add("self append", "do def v = x; append(v, v); v end", 1)
_add("self add", "do def v = x; v + v end", 1)
_add("self eq", "do def v = x; v == v and v <= v end", 1)
_add("self in", "do def v = x; v in v end", 1)
_add("self put", "do def v = x; v[v] = v; v end", 1)
_add("for keys", "for k in keys x do k end", 1)
_add("for values", "for k in values x do k end", 1)
_add("for entries", "for k in entries x do k end", 1)
_add("for entries2", "for [k, v] in entries x do k end", 1)
_add("lc", "[e for e in x]", 1)
_add("lc if", "[e for e in x if y]", 2)
_add("lc keys", "[e for e in keys x]", 1)
_add("lc values", "[e for e in values x]", 1)
_add("lc entries", "[e for e in entries x]", 1)
_add("lc product", "[[a, b] for a in x for b in y]", 2)
_add("lc parallel", "[[a, b] for a in x also for b in y]", 2)
_add("sc", "<<e for e in x>>", 1)
_add("sc product", "<<[a, b] for a in x for b in y>>", 2)
_add("sc parallel", "<<[a, b] for a in x also for b in y>>", 2)
_add("mc", "<<<e => e for e in x>>>", 1)
_add("mc kv", "<<<y => e for e in x>>>", 2)
_add("list lit", "[x, y]", 2)
_add("set lit", "<<x, y>>", 2)
_add("map lit", "<<<x => y>>>", 2)
_add("map lit2", "<<<x => 1, y => 2>>>", 2)
_add("obj lit", "<*a = x, b = y*>", 2)
_add("def destr", "do def [a, b] = x; [a, b] end", 1)
_add("assign destr", "do def a = 0; def b = 0; [a, b] = x; [a, b] end", 1)
_add("if", "if x then 1 else 2", 1)
_add("elif", "if FALSE then 1 elif x then 2", 1)
_add("while", "while x do break end", 1)
_add("error", "error x", 1)
_add("catch", "do error y catch x 2 end", 2)
_add("catch2", "do error 1 catch x 2 end", 1)
_add("require", "require x", 1)
_add("require as", "require x as q", 1)
_add("return", "do return x; end", 1)
_add("string of", "string(x)", 1)
_add("print", "println(x)", 1)
for _f in ["5", "-5", "05", ".2", "06.2", "x", "04x", ".0", "", "x.y", "a",
           "-", "0", "."]:
    _add("s#" + _f, "s('{x#" + _f + "}')", 1)
_add("s plain", "s('{x}')", 1)
_add("sprintf", "sprintf('{0} {1}', x, y)", 2)
_add("sprintf fmt", "sprintf('{0#5.1}', x)", 1)
_add("eq chain", "x == y == z", 3)
_add("lt chain", "x < y < z", 3)
_add("arith3", "x + y * z", 3)
_add("andor3", "x and y or z", 3)


_S = {}


def sess():
    if "s" not in _S:
        _S["s"] = sweep.SweepSession(legacy=True)
        _S["forms"] = {}
    return _S["s"]


def form_node(name, wrap=False):
    key = (name, wrap)
    n = _S["forms"].get(key)
    if n is None:
        src = FORMS2[name][0]
        if wrap:
            src = "do " + src + " catch all 'CAUGHT' end"
        n = core.ckl.parser.parse_script(src, "form")
        _S["forms"][key] = n
    return n


def run_form(name, argnames, wrap=False):
    s = sess()
    args = [sweep.POOL[sweep.POOL_INDEX[a]][1](s) for a in argnames]
    env = s.env.newEnv()
    for nm, v in zip("xyz", args):
        env.put(nm, v)
    s.session._bind_streams()
    sweep.F.seed = 1
    node = form_node(name, wrap)
    core.set_fuel(30000, 30000)
    core.arm(4.0)
    try:
        o = core.outcome_raw(lambda: node.evaluate(env))
        if o[0] == "value" and not (
                isinstance(o[1], core.ckl.values.Value)
                and core.is_cyclic(o[1])):
            try:
                repr(o[1])
            except core.CklRuntimeError:
                pass
            except (core.FuelExhausted, core.WallClock):
                o = ("hang", "render")
            except RecursionError:
                o = ("host", "RecursionError", "render")
            except Exception as e:
                o = ("host", type(e).__name__, "render:" + core.host_site(e))
    finally:
        core.disarm()
        core.set_fuel(10 ** 12, 10 ** 12)
    return o


def safe_repr(v):
    """rendering on behalf of the harness: may fail or not terminate on a
    changed tree, so it runs under the wall clock and never raises"""
    core.arm(2.0)
    try:
        return repr(v)
    except BaseException as e:
        return "<unrenderable %s %d>" % (type(e).__name__, id(v))
    finally:
        core.disarm()


CYCLIC_OPERANDS = {"<*a = 1, _proto_ = itself*>", "<*_proto_ = cyclic*>",
                   "[1, itself]"}
# what replaces a cyclic operand when asking whether the callee has to
# traverse its argument at all
TWIN = {"<*a = 1, _proto_ = itself*>": "<*a = 1, f = fn(self) 1*>",
        "<*_proto_ = cyclic*>": "<**>", "[1, itself]": "[1, 2, 3]"}


def malformed(v, depth=0, seen=None):
    """None, or a description of the first piece of value v that is not a
    language value (a host object inside a list, a string value whose payload
    is no host string, ...): such a result raises host exceptions as soon as
    the program touches it"""
    V = core.ckl.values
    if seen is None:
        seen = set()
    if not isinstance(v, V.Value):
        return "element:" + type(v).__name__
    if depth > 6 or id(v) in seen:
        return None
    # (an int value holding a host float or the reverse computes and renders
    # without host exceptions: not this property's matter)
    payload = {V.ValueString: str, V.ValueInt: (int, float),
               V.ValueDecimal: (int, float), V.ValueBoolean: bool,
               V.ValueList: list, V.ValueSet: set, V.ValueMap: dict,
               V.ValueObject: dict}.get(type(v))
    if payload is not None and not isinstance(v.value, payload):
        return "payload:%s:%s" % (type(v).__name__, type(v.value).__name__)
    if isinstance(v, (V.ValueList, V.ValueSet)):
        kids = list(v.value)
    elif isinstance(v, V.ValueMap):
        kids = list(v.value.keys()) + list(v.value.values())
    elif isinstance(v, V.ValueObject):
        for k in v.value:
            if not isinstance(k, str):
                return "member-name:" + type(k).__name__
        kids = list(v.value.values())
    else:
        return None
    seen.add(id(v))
    for k in kids:
        m = malformed(k, depth + 1, seen)
        if m:
            return m
    return None


def judge(o, argnames=()):
    """None if fine, else (kind, detail dict)"""
    if o[0] == "host" and o[1] == "RecursionError" and \
            CYCLIC_OPERANDS & set(argnames):
        # equality, hashing and rendering of a value that contains itself
        # are infinitely deep: outside the claim (lookups are not - a hang
        # or any other host exception on such an operand is still reported)
        return None
    if o[0] == "value":
        if not isinstance(o[1], core.ckl.values.Value):
            return {"kind": "non-value-result", "exc": type(o[1]).__name__}
        m = malformed(o[1])
        if m:
            return {"kind": "malformed-result", "exc": m}
        return None
    if o[0] == "rt":
        if not isinstance(o[1], core.ckl.values.Value):
            return {"kind": "rt-nonvalue", "exc": type(o[1]).__name__}
        return None
    if o[0] == "syn":
        return {"kind": "syntax-error-from-evaluation"}
    if o[0] == "host":
        return {"kind": "host", "exc": o[1], "site": o[2]}
    return {"kind": "hang", "exc": o[1]}


HANG_OPERANDS = {}


def explore_calls(chunk):
    agg = core.Agg()
    hangs = {}
    s = sess()
    fmap = dict(s.funcs)
    wrapped_seen = set()
    for fname, first, tier in chunk:
        fn = fmap[fname]
        n = sweep.nparams_of(fn)
        for t in sweep.arg_tuples(n, tier):
            if first is None:
                if len(t) > 1:
                    continue
            elif len(t) < 2 or t[0] != first:
                continue
            if hangs.get(fname, 0) >= 2 or \
                    any(HANG_OPERANDS.get(a, 0) >= 6 for a in t):
                continue      # already reported; every further hang costs
                              # the full wall-clock allowance (an operand
                              # that made six calls hang is set aside for
                              # the rest of this worker's jobs)
            variants = [False]
            if len(t) >= 2 and len(set(t)) < len(t):
                variants.append(True)   # the same object passed twice
            for alias in variants:
                o, args = s.call(fn, t, alias=alias)
                agg.count("steps")
                agg.cls((fname, o[0]))
                bad = judge(o, t)
                if bad:
                    if bad["kind"] == "hang":
                        hangs[fname] = hangs.get(fname, 0) + 1
                        for a in set(t):
                            HANG_OPERANDS[a] = HANG_OPERANDS.get(a, 0) + 1
                    break
            if bad:
                sig = {"callee": fname, **bad}
                if alias:
                    sig["aliased"] = "yes"
                agg.violation(sig, {"kind": "call", "callee": fname,
                                    "args": list(t), "alias": alias},
                              "value or catchable runtime error",
                              core.show_raw(o), size=len(t) * 100 + sum(
                                  len(x) for x in t))
            elif o[0] == "host" and o[1] == "RecursionError" and \
                    CYCLIC_OPERANDS & set(t):
                # excused only if the callee has to walk its argument: when
                # the same call on a plain twin of the cyclic operand ends
                # in a language error, that error was in flight here too
                # and the host exception replaced it
                twin = tuple(TWIN.get(a, a) for a in t)
                o2, _ = s.call(fn, twin)
                agg.count("steps")
                if o2[0] == "rt":
                    agg.violation(
                        {"callee": fname, "kind": "host",
                         "exc": "RecursionError",
                         "site": "while an error was in flight"},
                        {"kind": "call", "callee": fname, "args": list(t),
                         "alias": False, "twin": list(twin)},
                        "the language error the twin call " +
                        str(list(twin)) + " raises", core.show_raw(o),
                        size=len(t) * 100 + sum(len(x) for x in t))
            elif o[0] == "rt":
                key = (fname, safe_repr(o[1]))
                if key not in wrapped_seen:
                    wrapped_seen.add(key)
                    agg.count("interceptions")
                    # interceptability: same call inside do .. catch all
                    ok = wrap_call(s, fn, t)
                    if not ok:
                        agg.violation(
                            {"callee": fname, "kind": "not-interceptable"},
                            {"kind": "call", "callee": fname,
                             "args": list(t), "wrap": True},
                            "'CAUGHT'", "error escaped catch all")
            if agg.n["steps"] % 20000 == 1:
                agg.sample({"call": fname, "args": list(t),
                            "observed": core.show_raw(o)}, 3)
        agg.count("cases")
    return agg


_wrapnodes = {}


def wrap_call(s, fn, t):
    node = _wrapnodes.get(len(t))
    if node is None:
        params = ", ".join(["a", "b", "c"][:len(t)])
        node = core.ckl.parser.parse_script(
            f"do f({params}) catch all 'CAUGHT' end", "wrap")
        _wrapnodes[len(t)] = node
    args = [sweep.POOL[sweep.POOL_INDEX[a]][1](s) for a in t]
    env = s.env.newEnv()
    env.put("f", fn)
    for nm, v in zip("abc", args):
        env.put(nm, v)
    s.session._bind_streams()
    core.set_fuel(30000, 30000)
    core.arm(4.0)
    try:
        o = core.outcome_raw(lambda: node.evaluate(env))
    finally:
        core.disarm()
        core.set_fuel(10 ** 12, 10 ** 12)
    return o[0] == "value" and safe_repr(o[1]) == "'CAUGHT'"


def explore_forms(chunk):
    agg = core.Agg()
    sess()
    names = [n for n, _ in sweep.POOL]
    wrapped_seen = set()
    for fname, first, tier in chunk:
        src, holes = FORMS2[fname]
        pool3 = names if tier == "thorough" else sweep.SUBPOOL
        if holes == 1:
            tuples = [(first,)]
        elif holes == 2:
            tuples = [(first, b) for b in names]
        else:
            if first not in pool3:
                continue
            tuples = [(first, b, c) for b in pool3 for c in pool3]
        nh = 0
        for t in tuples:
            if nh >= 2:
                break
            if any(HANG_OPERANDS.get(a, 0) >= 6 for a in t):
                continue
            if "10^400" in t and "*" in FORMS2[fname][0]:
                continue      # a repeat count of 10^400: resource exhaustion
            o = run_form(fname, t)
            agg.count("steps")
            agg.cls((fname, o[0]))
            bad = judge(o, t)
            if bad and bad["kind"] == "hang":
                nh += 1
                for a in set(t):
                    HANG_OPERANDS[a] = HANG_OPERANDS.get(a, 0) + 1
            if bad:
                agg.violation({"callee": "form:" + fname, **bad},
                              {"kind": "form", "form": fname, "src": src,
                               "args": list(t)},
                              "value or catchable runtime error",
                              core.show_raw(o), size=len(t) * 100 + sum(
                                  len(x) for x in t))
            elif o[0] == "rt":
                key = (fname, safe_repr(o[1]))
                if key not in wrapped_seen:
                    wrapped_seen.add(key)
                    agg.count("interceptions")
                    w = run_form(fname, t, wrap=True)
                    if not (w[0] == "value" and safe_repr(w[1]) == "'CAUGHT'"):
                        agg.violation(
                            {"callee": "form:" + fname,
                             "kind": "not-interceptable"},
                            {"kind": "form", "form": fname, "src": src,
                             "args": list(t), "wrap": True},
                            "'CAUGHT'", core.show_raw(w))
            if agg.n["steps"] % 20000 == 1:
                agg.sample({"form": src, "args": list(t),
                            "observed": core.show_raw(o)}, 3)
        agg.count("cases")
    return agg


def replay(case, verbose=False):
    s = sess()
    if case["kind"] == "call":
        fn = dict(s.funcs)[case["callee"]]
        if case.get("wrap"):
            ok = wrap_call(s, fn, tuple(case["args"]))
            if verbose:
                print("wrapped call intercepted:", ok)
            return not ok
        o, _ = s.call(fn, tuple(case["args"]),
                      alias=bool(case.get("alias")))
    else:
        o = run_form(case["form"], tuple(case["args"]),
                     wrap=bool(case.get("wrap")))
        if case.get("wrap"):
            return not (o[0] == "value" and safe_repr(o[1]) == "'CAUGHT'")
    if verbose:
        print("case:", case)
        print("observed:", core.show_raw(o))
    if case.get("twin"):
        o2, _ = s.call(fn, tuple(case["twin"]))
        if verbose:
            print("twin:", case["twin"], core.show_raw(o2))
        return o[0] == "host" and o2[0] == "rt"
    return judge(o, tuple(case["args"])) is not None


def main(tier, seed):
    t0 = time.time()
    s = sess()
    names = [n for n, _ in sweep.POOL]
    call_tasks = []
    for fname, fn in s.funcs:
        call_tasks.append((fname, None, tier))
        if sweep.nparams_of(fn) >= 2:
            for a in names:
                call_tasks.append((fname, a, tier))
    form_tasks = [(f, a, tier) for f in FORMS2 for a in names]
    agg = core.pmap(explore_calls, core.chunked(call_tasks, core.NPROC * 6))
    agg2 = core.pmap(explore_forms, core.chunked(form_tasks, core.NPROC * 4))
    nf = len(s.funcs)
    agg.merge(agg2)
    core.finish(
        PID, tier, seed, agg, t0,
        rule=(f"{nf} functions (secure legacy base environment + all bundled "
              f"modules, discovered at run time) x all argument tuples of "
              f"arity <= min(3, params) from a {len(sweep.POOL)}-value pool "
              f"(quick: arity 3 from a {len(sweep.SUBPOOL)}-value sub-pool) "
              f"plus {len(FORMS2)} syntactic forms x pool^holes; a class is "
              f"(callee/form, outcome kind)"),
        exhaustive=True,
        assumptions=[
            "secure interpreters only (OS-touching built-ins are covered by "
            "C09 under the file-system seam)",
            "resource exhaustion by huge magnitudes is out of scope: pool "
            "magnitudes are small",
            "fuel 30000 evaluator steps / 10 s per call distinguishes "
            "non-termination from slow termination",
        ],
        replay_fn=replay,
        extra={"functions": nf, "forms": len(FORMS2),
               "pool": [n for n, _ in sweep.POOL]},
    )
