"""C11 require binds exactly the requested names and evaluates each module
once.

E3 x E4: all dependency digraphs (self loops and cycles included) on 2 and 3
generated user modules (plus chain / diamond / fan / cycle families on 4 and
5) x all importer command histories up to length 2/3 over every import form,
explored with fork snapshots.  After every command: the names added to the
importer scope, the load markers on stdout, the shared module state, privacy
of `_` names, isolation from importer variables and the response itself are
compared with a module-system model.
"""
import itertools
import os
import time

from mc import core, e4

PID = "C11"


def mod_source(i, succ):
    """module Mi requiring its successors from inside a private function"""
    lines = [f"println('load M{i}');"]
    reqs = []
    for j in succ:
        form = (i + j) % 3
        if form == 0:
            reqs.append(f"require M{j};")
        elif form == 1:
            reqs.append(f"require M{j} as Dep{j};")
        else:
            reqs.append(f"require M{j} import [pub_{j}];")
    lines.append("def _deps() do " + " ".join(reqs) + " NULL end;")
    lines.append("_deps();")
    lines.append(f"def pub_{i} = {i * 10 + 5};")
    lines.append(f"def f_{i}() pub_{i} + 1;")
    lines.append(f"def _p_{i} = 'private{i}';")
    lines.append(f"def counter_{i} = [0];")
    lines.append(f"def bump_{i}() do counter_{i}[0] += 1; "
                 f"counter_{i}[0] end;")
    for j in succ:
        lines.append(f"def via_{i}_{j}() do require M{j}; "
                     f"M{j}->bump_{j}() end;")
    lines.append(f"def probe_{i}() probe_importer;")
    # a default that refers to private module state is evaluated in the
    # module's scope, whoever calls
    # top-level code with a loop that is left early: its loop variable is
    # no definition of the module
    lines.append(f"def chosen_{i} = 0;")
    lines.append(f"for cand in [1, 2, 3] do if cand == 2 then do "
                 f"chosen_{i} = cand; break; end; end;")
    # a member every module has under the same name
    lines.append(f"def whoami() 'M{i}';")
    lines.append(f"def _rate_{i} = 3;")
    lines.append(f"def scaled_{i}(x, factor = _rate_{i}) x * factor;")
    return "\n".join(lines) + "\n"


def public_names(i, succ):
    return {f"pub_{i}", f"f_{i}", f"counter_{i}", f"bump_{i}",
            f"probe_{i}", f"scaled_{i}", "whoami", f"chosen_{i}"} | \
        {f"via_{i}_{j}" for j in succ}


def write_graph(graph, where="home"):
    # every worker process owns its module directory (HOME is per process)
    myhome = os.path.join(core.SCRATCH_HOME, "w%d" % os.getpid())
    os.environ["HOME"] = myhome
    home = os.path.join(myhome, ".ckl", "modules")
    other = os.path.join(myhome, "modpath")
    for d in (home, other):
        os.makedirs(d, exist_ok=True)
        for f in os.listdir(d):
            os.remove(os.path.join(d, f))
    target = home if where == "home" else other
    for i, succ in enumerate(graph):
        with open(os.path.join(target, f"M{i}.ckl"), "w") as f:
            f.write(mod_source(i, succ))


SLIM = ("r", "ra", "ru", "ria", "b", "ba", "bu", "c", "rf", "re", "re2",
        "rpa", "ms", "cm", "cma", "rsb", "rfail", "rev", "ceq")


def commands(graph, targets):
    cmds = [("dp", None)]
    slim = False
    if targets and targets[0] == "slim":
        slim, targets = True, targets[1:]
    for t in targets:
        for c in ("r", "ra", "ru", "ri", "ria", "rp", "b", "ba", "bu", "c",
                  "p", "pr", "sc", "rf", "re", "re2", "rpa", "riu", "ms", "cm",
                  "cma", "rsb", "rsq", "rfail", "rev", "ceq"):
            if slim and c not in SLIM:
                continue
            cmds.append((c, t))
        if graph[t]:
            cmds.append(("via", t))
    if len(targets) >= 2:
        # one call site that meets two modules with a member of one name
        cmds.append(("wl", (targets[0], targets[1])))
    return cmds


def command_text(graph, cmd):
    c, t = cmd
    if c == "wl":
        a, b = t
        return (f"require M{a} as W{a}; require M{b} as W{b}; "
                f"[m->whoami() for m in [W{a}, W{b}, W{a}]]")
    return {
        "dp": "def probe_importer = 1",
        "r": f"require M{t}",
        "ra": f"require M{t} as AL{t}",
        "ru": f"require M{t} unqualified",
        "ri": f"require M{t} import [pub_{t}]",
        "ria": f"require M{t} import [pub_{t} as q_{t}, bump_{t}]",
        "rp": f"require M{t} import [_p_{t}]",
        # a private name stays private under a public alias; a public name
        # may be bound under any alias
        "rpa": f"require M{t} import [_p_{t} as peek_{t}]",
        "riu": f"require M{t} import [pub_{t} as _u_{t}]",
        # the module object belongs to the importer that required it:
        # writing to it must not show through any other binding
        "ms": f"require M{t}; M{t}->pub_{t} = 999; M{t}->extra = 1; 1",
        "cm": f"[M{t}->pub_{t}, M{t}->extra, sorted([m for m in M{t}])]",
        "cma": f"require M{t} as AL{t}; "
               f"[AL{t}->pub_{t}, AL{t}->extra, sorted([m for m in AL{t}])]",
        # two module objects of one instance expose the same members: they
        # are equal until an importer writes to its own object
        "ceq": f"require M{t} as EA{t}; require M{t} as EB{t}; "
               f"[EA{t} == EB{t}, EB{t} in [EA{t}], "
               f"EA{t}->bump_{t} == EB{t}->bump_{t}]",
        "b": f"M{t}->bump_{t}()",
        "ba": f"AL{t}->bump_{t}()",
        "bu": f"bump_{t}()",
        "c": f"M{t}->counter_{t}[0]",
        "p": f"M{t}->_p_{t}",
        "pr": f"M{t}->probe_{t}()",
        "sc": f"M{t}->scaled_{t}(2)",
        # other spellings of the same module name name the same instance
        "rsb": f"require 'M{t}.ckl' as ST{t}; ST{t}->bump_{t}()",
        "rsq": f"require \"M{t}\" as SQ{t}; SQ{t}->bump_{t}()",
        # a script that loads a module and fails afterwards: the module
        # stays loaded (and bound), a later require does not run it again
        "rfail": f"require M{t}; error 'after-require'",
        # a require that runs as text through eval binds in the scope of
        # the eval call
        "rev": f"eval('require M{t}'); M{t}->bump_{t}()",
        "rf": f"def rq{t}() do require M{t}; M{t}->bump_{t}() end; rq{t}()",
        # issued through interpret(.., environment=E): E persistent / fresh
        "re": f"require M{t}; M{t}->bump_{t}()",
        "re2": f"require M{t} as X; X->bump_{t}()",
        "via": f"M{t}->via_{t}_{graph[t][0] if t is not None and graph[t] else 0}()",
    }[c]


class CycleError(Exception):
    pass


class Model:
    """module-system model of one interpreter"""

    def __init__(self, graph):
        self.graph = graph
        self.cached = set()
        self.counters = {}
        self.out = ""
        self.names = {}      # importer scope: name -> tag
        self.written = set() # module-object names the importer wrote to

    def copy(self):
        m = Model(self.graph)
        m.cached = set(self.cached)
        m.counters = dict(self.counters)
        m.out = self.out
        m.names = dict(self.names)
        m.written = set(self.written)
        return m

    def load(self, i, stack):
        if i in stack:
            raise CycleError()
        if i in self.cached:
            return
        self.out += f"load M{i}\n"
        for j in self.graph[i]:
            self.load(j, stack + [i])
        self.cached.add(i)
        self.counters.setdefault(i, 0)

    def bump(self, i):
        self.counters[i] = self.counters.get(i, 0) + 1
        return self.counters[i]


ERR = ["rt", "'ERROR'"]


def show_names(names):
    return "[" + ", ".join("'%s'" % n for n in names) + "]"


class Importer(e4.Explorer):
    def __init__(self, graph, targets, firsts=None):
        self.graph = graph
        self.cmds = commands(graph, targets)
        self.firsts = firsts

    def alphabet(self, state, model, history):
        if not history and self.firsts is not None:
            return [c for c in self.cmds if c in self.firsts]
        return self.cmds

    def execute(self, state, cmd):
        s = state
        before = set(s.interp.environment.getLocalSymbols())
        env = None
        if cmd[0] == "re":
            if getattr(s, "E", None) is None:
                s.E = core.ckl.functions.get_none_environment()
            env = s.E
        elif cmd[0] == "re2":
            env = core.ckl.functions.get_none_environment()
        core.set_fuel(100000, 100000)
        try:
            o = core.outcome_of(lambda: s.interp.interpret(
                command_text(self.graph, cmd), "importer", env))
        finally:
            core.set_fuel(10 ** 12, 10 ** 12)
        after = set(s.interp.environment.getLocalSymbols())
        resp = ["value", o[2]] if o[0] == "value" else \
            (["syn"] if o[0] == "syn" else list(o))
        return {"resp": resp, "added": sorted(after - before),
                "removed": sorted(before - after), "out": s.out.getvalue()}

    def model_step(self, model, cmd):
        m = model.copy()
        c, t = cmd
        g = self.graph
        added = set()
        try:
            if c == "dp":
                if "probe_importer" not in m.names:
                    added.add("probe_importer")
                m.names["probe_importer"] = "val"
                resp = ["value", "1"]
            elif c in ("r", "ra", "ru", "ri", "ria", "rp", "rpa", "riu"):
                m.load(t, [])
                if c == "r":
                    new = {f"M{t}": ("mod", t)}
                elif c == "ra":
                    new = {f"AL{t}": ("mod", t)}
                elif c == "ru":
                    new = {n: ("sym", t) for n in public_names(t, g[t])}
                elif c == "ri":
                    new = {f"pub_{t}": ("sym", t)}
                elif c == "ria":
                    new = {f"q_{t}": ("sym", t), f"bump_{t}": ("sym", t)}
                elif c == "riu":
                    new = {f"_u_{t}": ("sym", t)}
                else:
                    new = {}
                for n, tag in new.items():
                    if n not in m.names:
                        added.add(n)
                    m.names[n] = tag
                    m.written.discard(n)      # a require binds a new object
                resp = ["value", "NULL"]
            elif c in ("b", "c", "p", "pr", "sc", "via"):
                if m.names.get(f"M{t}") != ("mod", t):
                    resp = ERR
                elif c == "b":
                    resp = ["value", str(m.bump(t))]
                elif c == "c":
                    resp = ["value", str(m.counters.get(t, 0))]
                elif c == "p":
                    resp = ["value", "NULL"]
                elif c == "pr":
                    resp = ERR
                elif c == "sc":
                    resp = ["value", "6"]
                else:
                    j = g[t][0]
                    m.load(j, [])
                    resp = ["value", str(m.bump(j))]
            elif c in ("ms", "cm", "cma"):
                n = f"AL{t}" if c == "cma" else f"M{t}"
                if c in ("ms", "cma"):
                    m.load(t, [])
                    if n not in m.names:
                        added.add(n)
                    m.names[n] = ("mod", t)
                    m.written.discard(n)
                if m.names.get(n) != ("mod", t):
                    resp = ERR
                elif c == "ms":
                    m.written.add(n)
                    resp = ["value", "1"]
                else:
                    pubs = sorted(public_names(t, g[t]))
                    if n in m.written:
                        resp = ["value", "[999, 1, %s]" % show_names(
                            sorted(pubs + ["extra"]))]
                    else:
                        resp = ["value", "[%d, NULL, %s]" % (
                            t * 10 + 5, show_names(pubs))]
            elif c == "ceq":
                m.load(t, [])
                for n in (f"EA{t}", f"EB{t}"):
                    if n not in m.names:
                        added.add(n)
                    m.names[n] = ("mod", t)
                    m.written.discard(n)
                resp = ["value", "[TRUE, TRUE, TRUE]"]
            elif c == "ba":
                resp = ["value", str(m.bump(t))] \
                    if m.names.get(f"AL{t}") == ("mod", t) else ERR
            elif c == "bu":
                resp = ["value", str(m.bump(t))] \
                    if m.names.get(f"bump_{t}") == ("sym", t) else ERR
            elif c == "wl":
                a, b = t
                for x in (a, b):
                    m.load(x, [])
                    n = f"W{x}"
                    if n not in m.names:
                        added.add(n)
                    m.names[n] = ("mod", x)
                    m.written.discard(n)
                resp = ["value", f"['M{a}', 'M{b}', 'M{a}']"]
            elif c == "rev":
                m.load(t, [])
                n = f"M{t}"
                if n not in m.names:
                    added.add(n)
                m.names[n] = ("mod", t)
                m.written.discard(n)
                resp = ["value", str(m.bump(t))]
            elif c == "rfail":
                m.load(t, [])
                n = f"M{t}"
                if n not in m.names:
                    added.add(n)
                m.names[n] = ("mod", t)
                m.written.discard(n)
                resp = ["rt", "'after-require'"]
            elif c in ("rsb", "rsq"):
                m.load(t, [])
                n = ("ST" if c == "rsb" else "SQ") + str(t)
                if n not in m.names:
                    added.add(n)
                m.names[n] = ("mod", t)
                m.written.discard(n)
                resp = ["value", str(m.bump(t))]
            elif c in ("re", "re2"):
                # binds in the caller's environment, not in the session
                m.load(t, [])
                resp = ["value", str(m.bump(t))]
            elif c == "rf":
                if f"rq{t}" not in m.names:
                    added.add(f"rq{t}")
                m.names[f"rq{t}"] = "fn"
                m.load(t, [])
                resp = ["value", str(m.bump(t))]
            else:
                raise KeyError(c)
        except CycleError:
            resp = ERR
        return m, {"resp": resp, "added": sorted(added), "out": m.out}

    def judge(self, agg, history, cmd, expected, obs):
        bad = []
        if obs["resp"][0] != expected["resp"][0] or \
                (len(expected["resp"]) > 1 and
                 obs["resp"][1:2] != expected["resp"][1:2]):
            bad.append("response")
        if obs["added"] != expected["added"] or obs["removed"]:
            bad.append("names-bound")
        if obs["out"] != expected["out"]:
            bad.append("load-markers")
        agg.cls((cmd[0], obs["resp"][0], bool(expected["added"])))
        for what in bad:
            agg.violation(
                {"what": what, "cmd": cmd[0]},
                {"graph": [list(x) for x in self.graph],
                 "history": [list(h) for h in history] + [list(cmd)],
                 "texts": [command_text(self.graph, tuple(h))
                           for h in list(history) + [cmd]]},
                expected, obs,
                size=len(history) * 1000 + sum(map(len, self.graph)) * 10)
        if agg.n["steps"] % 2500 == 1:
            agg.sample({"graph": [list(x) for x in self.graph],
                        "history": [command_text(self.graph, tuple(h))
                                    for h in list(history) + [cmd]],
                        "observation": obs}, 3)


def load_all(graph):
    """one throw-away interpreter that requires every module of the graph
    (whatever the process keeps about module files is filled by now)"""
    sx = core.Session()
    for i in range(len(graph)):
        core.outcome_of(lambda: sx.interp.interpret("require M%d" % i, "warm"))


def explore_graph(chunk):
    agg = core.Agg()
    prior = None
    for item in chunk["graphs"]:
        graph, depth, targets = item[:3]
        graph = tuple(tuple(x) for x in graph)
        write_graph(graph)
        ex = Importer(graph, targets,
                      [tuple(f) for f in item[3]] if len(item) > 3 else None)
        state = core.Session()
        seen = set(agg.viol)
        ex.explore(state, Model(graph), [], depth, agg)
        for k, (sz, v) in agg.viol.items():
            if k in seen:
                continue
            # module files of the same names may have held other text
            # before, in this job or an earlier one of this worker: a
            # violation that depends on that history is confirmed here, in
            # the process that saw it, on a fresh interpreter
            if prior is not None:
                v["case"]["prior"] = [list(x) for x in prior]
            hist = [(h[0], tuple(h[1]) if isinstance(h[1], list) else h[1])
                    for h in v["case"]["history"]]
            again = core.Agg()
            for cmd, exp, obs in ex.replay_fresh(
                    core.Session, lambda: Model(graph), hist):
                ex.judge(again, [], cmd, exp, obs)
            v["case"]["seen_twice"] = bool(again.viol)
        load_all(graph)
        prior = graph
    return agg


# ---- bundled modules: one evaluation per interpreter -------------------------
BUNDLED_FORMS = ["require {M}", "require {M} as X{k}", "require {M} unqualified",
                 "require {M} import [{f} as y{k}]"]
_COUNTS = {}


def _count_parses():
    """owns the one place where module source becomes code: every
    parse_script call with a module file name is counted per file"""
    P = core.ckl.parser
    if getattr(P.parse_script, "_c11", False):
        return
    orig = P.parse_script

    def counted(src, fname="{}", *a, **k):
        if str(fname).startswith("mod:"):
            key = str(fname).lower()
            _COUNTS[key] = _COUNTS.get(key, 0) + 1
        return orig(src, fname, *a, **k)
    counted._c11 = True
    P.parse_script = counted


def bundled_modules():
    it = core.Session().interp
    return sorted(m.value for m in
                  it.base_environment.get("checkerlang_modules").value)


_PUB = {}


def first_public(mod):
    """name of one public function of the module (asked of a separate
    interpreter, so that the probe is not part of the explored sequence)"""
    if mod not in _PUB:
        sx = core.Session(secure=True, legacy=False)
        o = core.outcome_raw(lambda: sx.interp.interpret(
            "require %s as PROBE; PROBE" % mod, "probe"))
        pub = sorted(k for k, v in o[1].value.items()
                     if isinstance(v, core.ckl.values.ValueFunc)) \
            if o[0] == "value" else []
        _PUB[mod] = pub[0] if pub else None
    return _PUB[mod]


def run_bundled(mod, legacy, seq):
    """-> (evaluation count per module file, pairwise sharing verdicts) for
    one fresh interpreter and one sequence of (form, spelling) requires"""
    _count_parses()
    _COUNTS.clear()
    member = first_public(mod)
    _COUNTS.clear()
    sx = core.Session(secure=True, legacy=legacy)
    obs = []
    for k, (form, spell) in enumerate(seq):
        name = {"canon": mod, "lower": mod.lower(),
                "upper": mod.upper()}[spell]
        if member is None and "{f}" in BUNDLED_FORMS[form]:
            continue
        src = BUNDLED_FORMS[form].format(M=name, k=k, f=member)
        o = sx.run(src, "importer", fuel=2000000, wall=20.0)
        obs.append((src, o[0]))
    return dict(_COUNTS), obs


def explore_bundled(chunk):
    """every bundled module x interpreter flavour x sequence of require
    forms and name spellings: no module file is evaluated twice in one
    interpreter (the interpreter's own start-up requires included)"""
    agg = core.Agg()
    for mod, legacy, seq in chunk["cases"]:
        counts, obs = run_bundled(mod, legacy, seq)
        agg.count("steps")
        agg.cls(("bundled", mod, tuple(o[1] for o in obs)))
        twice = sorted(k for k, n in counts.items() if n > 1)
        if twice:
            agg.violation(
                {"what": "bundled-module-evaluated-twice", "file": twice[0]},
                {"bundled": mod, "legacy": legacy,
                 "seq": [list(x) for x in seq]},
                "every module file evaluated at most once per interpreter",
                {"counts": {k: counts[k] for k in twice},
                 "requires": [list(o) for o in obs]},
                size=len(seq) * 10 + len(mod))
    agg.count("cases")
    return agg


def all_graphs(n, self_loops=True):
    edges = [(i, j) for i in range(n) for j in range(n)
             if self_loops or i != j]
    for mask in range(2 ** len(edges)):
        g = [[] for _ in range(n)]
        for k, (i, j) in enumerate(edges):
            if mask >> k & 1:
                g[i].append(j)
        yield tuple(tuple(x) for x in g)


def families():
    out = []
    for n in (4, 5):
        out.append(tuple((i + 1,) if i + 1 < n else () for i in range(n)))
        out.append(tuple(((i + 1) % n,) for i in range(n)))       # n-cycle
        out.append(((1, 2),) + tuple((n - 1,) for _ in range(1, n - 1))
                   + ((),))                                       # diamond
        out.append((tuple(range(1, n)),) + tuple(() for _ in range(n - 1)))
        out.append(tuple((n - 1,) for _ in range(n - 1)) + ((),))  # fan-in
        out.append(((1,),) + tuple(((i + 1) if i + 1 < n else 1,)
                                   for i in range(1, n)))   # tail + cycle
    return out


def replay(case, verbose=False):
    if "bundled" in case:
        counts, obs = run_bundled(case["bundled"], case["legacy"],
                                  [tuple(x) for x in case["seq"]])
        if verbose:
            print(obs, counts)
        return any(n > 1 for n in counts.values())
    graph = tuple(tuple(x) for x in case["graph"])
    if case.get("prior"):
        pg = tuple(tuple(x) for x in case["prior"])
        write_graph(pg)
        load_all(pg)
    write_graph(graph)
    ex = Importer(graph, list(range(len(graph))))
    hist = [(h[0], h[1]) for h in case["history"]]
    out = ex.replay_fresh(core.Session, lambda: Model(graph), hist)
    bad = False
    for cmd, exp, obs in out:
        a = core.Agg()
        ex.judge(a, [], cmd, exp, obs)
        if verbose:
            print(command_text(graph, cmd), "\n   expected", exp,
                  "\n   observed", obs)
        bad = bad or bool(a.viol)
    return bad or bool(case.get("seen_twice"))


def main(tier, seed):
    t0 = time.time()
    jobs = []
    g2 = list(all_graphs(2))
    g3 = list(all_graphs(3, self_loops=tier == "thorough"))
    if tier == "quick":
        plan = [(g, 2, [0]) for g in g2] + \
               [(g, 1, [0, 1]) for g in g2] + \
               [(g, 2, ["slim", 0, 1]) for g in g2[:5]] + \
               [(g, 2, ["slim", 0]) for g in g3[::2]] + \
               [(g, 3, ["slim", 0]) for g in (((1,), (0,)),)] + \
               [(g, 1, [0, 1]) for g in families()]
    else:
        # (sized from measured cost, about 1 ms per step: the full
        # alphabet at depth 2, the slim one at depth 3)
        noloop = set(all_graphs(3, self_loops=False))
        plan = [(g, 2, [0, 1]) for g in g2] + \
               [(g, 3, ["slim", 0, 1]) for g in g2] + \
               [(g, 2, [0, 1]) for g in g3 if g in noloop] + \
               [(g, 2, ["slim", 0, 1])
                for g in [x for x in g3 if x not in noloop][::2]] + \
               [(g, 3, ["slim", 0]) for g in g3[::8]] + \
               [(g, 2, [0, 1]) for g in families()]
    # split the big plans by first command so that the pool stays busy
    items = []
    for (g, depth, targets) in plan:
        cmds = commands(g, targets)
        if len(cmds) ** depth > 400:
            for c in cmds:
                items.append((g, depth, targets, [c]))
        else:
            items.append((g, depth, targets))
    items.sort(key=lambda it: -(len(commands(it[0], it[2])) **
                                (it[1] - (1 if len(it) > 3 else 0))))
    for it in items:
        jobs.append({"graphs": [it]})
    # the same module names with other contents, one after the other in one
    # process (and in one HOME): nothing of an earlier edition may survive
    jobs.insert(0, {"graphs": [(g, 1, [0]) for g in
                               (g2[:6] if tier == "thorough" else g2[1:4])]})
    agg = core.pmap(explore_graph, jobs)
    agg.n["graphs"] = len(plan)
    mods = bundled_modules()
    if tier == "quick":
        steps = [(f, sp) for f in (0, 2) for sp in ("canon", "lower")]
        flavours = [False]
    else:
        steps = [(f, sp) for f in range(len(BUNDLED_FORMS))
                 for sp in ("canon", "lower", "upper")]
        flavours = [False, True]
    bcases = [(m, lg, seq) for m in mods for lg in flavours
              for seq in [(a,) for a in steps] +
              [(a, b) for a in steps for b in steps]]
    agg.merge(core.pmap(explore_bundled,
                        [{"cases": c} for c in
                         core.chunked(bcases, core.NPROC * 2)]))
    core.finish(
        PID, tier, seed, agg, t0,
        rule=(f"{len(plan)} (graph, depth, importer targets) plans: all "
              f"{len(g2)} digraphs on 2 modules and " +
              ("all" if tier == "thorough" else "every second of the") +
              f" {len(g3)} digraphs on 3 modules (self loops " +
              ("included" if tier == "thorough" else "excluded on 3") +
              f"), chain/cycle/diamond/fan-out/fan-in/tail+cycle families "
              f"on 4 and 5 modules; importer alphabet = {len(commands(((),), [0])) - 1} commands per "
              f"target module (8 import forms incl. private-under-alias, writes to a module object then reads through every other binding, calls through module / "
              f"alias / unqualified name, private member, importer-variable "
              f"probe, require inside a function, require through a "
              f"persistent and a fresh caller-supplied environment) + "
              f"importer definition; "
              f"all histories up to the plan's depth, one fork per step; "
              f"bundled modules: {len(mods)} modules x {len(flavours)} "
              f"interpreter flavour(s) x all sequences of <= 2 requires over "
              f"{len(steps)} (form, name spelling) steps, module file "
              f"evaluations counted at the parser seam"),
        exhaustive=True,
        assumptions=["module files live in $HOME/.ckl/modules of a scratch "
                     "HOME", "two modules with one base name in different "
                     "directories are out of scope"],
        replay_fn=replay,
    )
