"""C17 Dates and day numbers convert one-to-one and date arithmetic is
calendar-correct.

E1 over the calendar: every day 1900-01-01..9999-12-31 (thorough; quick:
every day 1900-2100 plus the boundary days of every year) through
to_oa_date / to_date and through the language (int, decimal, date, +, -);
stride-set arithmetic on the boundary days of every year; every second of
the day on days spread over the range.  Reference: proleptic Gregorian
ordinals of the host's datetime.date.
"""
import datetime
import time

from mc import core

PID = "C17"

BASE = datetime.date(1899, 12, 30).toordinal()
FIRST = datetime.date(1900, 1, 1).toordinal()
LAST = datetime.date(9999, 12, 31).toordinal()
STRIDES = [0, 2, 7, 28, 29, 30, 31, 59, 365, 366, 1461, 36524, 36525, 146097,
           10 ** 6]

NEAR_SECONDS = [-30, -9, -8, -5, -2, -1, 0, 1, 2, 5, 8, 9, 30, 61, 3599,
                43200, 86399]

FORMS = {
    "int": "int(d)",
    "decimal": "decimal(d)",
    "date": "date(n)",
    "add": "d + n",
    "sub": "d - n",
    "addsub": "(d + n) - n",
    "diff": "(d + n) - d",
    "date_int": "date(int(d))",
    "date_dec": "date(decimal(d))",
    "cmp": "[d < d + 1, d + 1 > d, d == d + 0, d - 1 < d]",
    # the text side: every real calendar day is a valid date in the
    # documented default format, an impossible one is not
    "parse": "[parse_date(t), is_valid_date(t), "
             "parse_date(t2, fmt = 'ddMMyyyy'), date(t), string(date(t))]",
    "parse_bad": "[parse_date(t), is_valid_date(t)]",
    # the fields of a date as the formatting side shows them
    "fields": "[Date->format_date(d), Date->format_date(d, fmt = 'dd.MM.yy HH-mm-ss'), "
              "Date->date_year(d), Date->date_month(d), Date->date_day(d), "
              "Date->date_hour(d), Date->date_minute(d), "
              "Date->date_second(d), Date->iso_date(d), "
              "Date->iso_datetime(d)]",
    "date_bad": "do date(t) catch all 'rejected' end",
}
_F = {}


def forms():
    if "f" not in _F:
        _F["f"] = core.Forms(FORMS, prelude="require Date import [parse_date]; "
                                           "require Date;")
    return _F["f"]


def dn(d):
    return d.toordinal() - BASE


def mkdate(ordinal, h=0, m=0, s=0):
    d = datetime.date.fromordinal(ordinal)
    return datetime.datetime(d.year, d.month, d.day, h, m, s)


def same_second(a, b):
    return isinstance(a, datetime.datetime) and \
        a.replace(microsecond=0) == b.replace(microsecond=0) and \
        abs((a - b).total_seconds()) < 1


def check_day(agg, ordinal, deep):
    V = core.ckl.values
    D = core.ckl.date
    dt = mkdate(ordinal)
    n = ordinal - BASE

    def bad(law, expd, obs):
        agg.violation({"law": law}, {"t": "day", "ordinal": ordinal,
                                     "date": dt.strftime("%Y-%m-%d"),
                                     "law": law}, str(expd), str(obs),
                      size=abs(ordinal - 730000))
    o = core.outcome_raw(lambda: D.to_oa_date(dt))
    agg.count("steps")
    if o[0] != "value" or o[1] != n:
        bad("day-number", n, o[1] if o[0] == "value" else o[:2])
    o = core.outcome_raw(lambda: D.to_date(n))
    agg.count("steps")
    if o[0] != "value" or o[1] != dt:
        bad("day-number-to-date", dt, o[1] if o[0] == "value" else o[:2])
    if not deep:
        return
    f = forms()
    d = V.ValueDate(dt)
    for name, kw, want in (
            ("int", {"d": d}, ("int", n)),
            ("decimal", {"d": d}, float(n)),
            ("date", {"n": V.ValueInt(n)}, dt),
            ("date", {"n": V.ValueDecimal(float(n))}, dt),
            ("date_int", {"d": d}, dt),
            ("date_dec", {"d": d}, dt),
            ("add", {"d": d, "n": V.ValueInt(1)},
             mkdate(ordinal + 1) if ordinal < LAST else None),
            ("sub", {"d": d, "n": V.ValueInt(1)},
             mkdate(ordinal - 1) if ordinal > FIRST else None),
            ("addsub", {"d": d, "n": V.ValueInt(1)},
             dt if ordinal < LAST else None),
            ("diff", {"d": d, "n": V.ValueInt(1)},
             1 if ordinal < LAST else None),
            ("cmp", {"d": d}, [True] * 4 if ordinal < LAST and
             ordinal > FIRST else None)):
        if want is None:
            continue
        r = f.ev(name, **kw)
        agg.count("steps")
        if not matches(r, want):
            bad("program:" + name, want, core.show_raw(r))


def matches(r, want):
    if r[0] != "value":
        return False
    v = r[1]
    V = core.ckl.values
    if isinstance(want, tuple) and want[0] == "int":
        return isinstance(v, V.ValueInt) and type(v.value) is int \
            and v.value == want[1]
    if isinstance(want, datetime.datetime):
        return isinstance(v, V.ValueDate) and v.value == want
    if isinstance(want, bool):
        return v is (V.TRUE if want else V.FALSE)
    if isinstance(want, list):
        return core.strict_eq(core.from_value(v), want)
    if isinstance(want, int):
        # a difference of dates may be an int or an equal decimal
        if isinstance(v, V.ValueDecimal):
            return v.value == want
        return isinstance(v, V.ValueInt) and type(v.value) is int \
            and v.value == want
    if isinstance(want, float):
        return isinstance(v, V.ValueDecimal) and v.value == want
    return False


def boundary_days(year):
    out = []
    for (m, d) in ((1, 1), (1, 31), (2, 28), (2, 29), (3, 1), (12, 30),
                   (12, 31)):
        try:
            out.append(datetime.date(year, m, d).toordinal())
        except ValueError:
            pass
    return out


def check_texts(agg, year):
    """text forms of the boundary days of one year and of its impossible
    days (Feb 30, Feb 29 of a common year, Apr 31, month 13)"""
    f = forms()
    V = core.ckl.values
    for o in boundary_days(year):
        dt = mkdate(o)
        t = dt.strftime("%Y%m%d") if year >= 1000 else \
            "%04d%02d%02d" % (dt.year, dt.month, dt.day)
        t2 = t[6:8] + t[4:6] + t[0:4]
        r = f.ev("parse", t=V.ValueString(t), t2=V.ValueString(t2))
        agg.count("steps")
        ok = r[0] == "value" and isinstance(r[1], V.ValueList) and \
            len(r[1].value) == 5
        if ok:
            a, b, c, d, e = r[1].value
            ok = all(isinstance(x, V.ValueDate) and x.value == dt
                     for x in (a, c, d)) and b is V.TRUE and \
                isinstance(e, V.ValueString) and e.value == t + "000000"
        if not ok:
            agg.violation({"law": "text:real-day-is-valid"},
                          {"t": "text", "year": year, "text": t},
                          "the date " + t, core.show_raw(r), size=1)
    # the formatting side on the days around the turn of the year and the
    # month ends, at midnight and at a time of day
    days = set(boundary_days(year))
    for (m, d) in ((1, 2), (1, 3), (1, 4), (12, 28), (12, 29)):
        days.add(datetime.date(year, m, d).toordinal())
    for o in sorted(days):
        for (hh, mi, ss) in ((0, 0, 0), (13, 7, 9)):
            dt = mkdate(o).replace(hour=hh, minute=mi, second=ss)
            y4 = "%04d" % dt.year
            want = [
                "%s-%02d-%02d %02d:%02d:%02d" % (y4, dt.month, dt.day, hh,
                                                 mi, ss),
                "%02d.%02d.%s %02d-%02d-%02d" % (dt.day, dt.month, y4[2:],
                                                 hh, mi, ss),
                dt.year, dt.month, dt.day, hh, mi, ss,
                "%s-%02d-%02d" % (y4, dt.month, dt.day),
                "%s-%02d-%02dT%02d:%02d:%02d" % (y4, dt.month, dt.day, hh,
                                                 mi, ss)]
            r = f.ev("fields", d=V.ValueDate(dt))
            agg.count("steps")
            got = core.from_value(r[1]) if r[0] == "value" else None
            if not (r[0] == "value" and core.strict_eq(got, want)):
                agg.violation({"law": "text:fields-of-a-date"},
                              {"t": "fields", "year": year, "ordinal": o,
                               "time": [hh, mi, ss]}, want,
                              core.show_raw(r), size=1)
    leap = year % 4 == 0 and (year % 100 != 0 or year % 400 == 0)
    bad = ["%04d0230" % year, "%04d0431" % year, "%04d1301" % year,
           "%04d0100" % year]
    if not leap:
        bad.append("%04d0229" % year)
    # impossible times of day in the 10- and 14-digit forms, impossible days
    for t in ["%04d010224" % year, "%04d0101236000" % year,
              "%04d0101235960" % year, "%04d022824" % year] + bad:
        r = f.ev("date_bad", t=V.ValueString(t))
        agg.count("steps")
        if not (r[0] == "value" and isinstance(r[1], V.ValueString)
                and r[1].value == "rejected"):
            agg.violation({"law": "text:impossible-date-text-rejected"},
                          {"t": "text", "year": year, "text": t},
                          "a runtime error", core.show_raw(r), size=1)
    for t in bad:
        r = f.ev("parse_bad", t=V.ValueString(t))
        agg.count("steps")
        ok = r[0] == "value" and isinstance(r[1], V.ValueList) and \
            r[1].value[0] is V.NULL and r[1].value[1] is V.FALSE
        if not ok:
            agg.violation({"law": "text:impossible-day-is-invalid"},
                          {"t": "text", "year": year, "text": t},
                          "[NULL, FALSE]", core.show_raw(r), size=1)


YEAR1 = datetime.date(1, 1, 1).toordinal()
OUT_OF_RANGE = [LAST - BASE + 1, LAST - BASE + 2, YEAR1 - BASE - 1,
                YEAR1 - BASE - 400, 10 ** 7, -10 ** 7, 2 ** 53 + 1,
                -2 ** 53 - 1, 10 ** 30, -10 ** 30, 10 ** 400]


def explore_range(chunk):
    """day numbers outside the years 1..9999 are rejected with a runtime
    error (at once: the conversion must not walk there year by year), as
    ints and as decimals, by date(n) and by date arithmetic"""
    agg = core.Agg()
    f = forms()
    V = core.ckl.values
    for n in chunk["numbers"]:
        vals = [V.ValueInt(n)]
        if abs(n) < 10 ** 300:
            vals.append(V.ValueDecimal(float(n)))
        for v in vals:
            core.arm(5.0)
            try:
                r = f.ev("date_bad", t=v)
            except core.WallClock:
                r = ("hang", "wall")
            finally:
                core.disarm()
            agg.count("steps")
            agg.cls(("out-of-range", r[0]))
            if not (r[0] == "value" and isinstance(r[1], V.ValueString)
                    and r[1].value == "rejected"):
                agg.violation({"law": "out-of-range-day-number-rejected"},
                              {"t": "range", "n": str(n),
                               "decimal": isinstance(v, V.ValueDecimal)},
                              "a runtime error", core.show_raw(r)
                              if r[0] != "hang" else list(r), size=1)
    agg.count("cases")
    return agg


def explore_days(chunk):
    agg = core.Agg()
    core.arm(7200)
    try:
        for (lo, hi, deep) in chunk["ranges"]:
            for o in range(lo, hi):
                check_day(agg, o, deep)
                agg.count("cases")
                if o % 20011 == 0:
                    dt = mkdate(o)
                    D = core.ckl.date
                    agg.sample({"day": dt.strftime("%Y-%m-%d"),
                                "reference_day_number": o - BASE,
                                "to_oa_date": D.to_oa_date(dt),
                                "to_date": str(D.to_date(o - BASE))}, 4)
        for (y, level) in chunk["years"]:
            if chunk.get("texts_all") or level != "conv" or y <= 2400 \
                    or y % 100 == 0:
                check_texts(agg, y)
            for o in boundary_days(y):
                check_day(agg, o, level != "conv")
                agg.count("cases")
                if level == "strides":
                    check_strides(agg, o)
            agg.cls(("year", level, y % 400 in (0, 100, 4, 1), y > 5000))
    finally:
        core.disarm()
    return agg


def check_strides(agg, ordinal):
    f = forms()
    V = core.ckl.values
    dt = mkdate(ordinal)
    d = V.ValueDate(dt)
    for s in STRIDES:
        for n in (s, -s):
            t = ordinal + n
            if not (FIRST <= t <= LAST):
                continue
            for name, want in (("add", mkdate(t)), ("addsub", dt),
                               ("diff", n)):
                r = f.ev(name, d=d, n=V.ValueInt(n))
                agg.count("steps")
                if not matches(r, want):
                    agg.violation(
                        {"law": "stride:" + name},
                        {"t": "stride", "ordinal": ordinal, "n": n,
                         "date": dt.strftime("%Y-%m-%d"), "form": name},
                        str(want), core.show_raw(r), size=abs(n))
            t2 = ordinal - n
            if FIRST <= t2 <= LAST:
                r = f.ev("sub", d=d, n=V.ValueInt(n))
                agg.count("steps")
                if not matches(r, mkdate(t2)):
                    agg.violation(
                        {"law": "stride:sub"},
                        {"t": "stride", "ordinal": ordinal, "n": n,
                         "date": dt.strftime("%Y-%m-%d"), "form": "sub"},
                        str(mkdate(t2)), core.show_raw(r), size=abs(n))


def explore_seconds(chunk):
    agg = core.Agg()
    D = core.ckl.date
    V = core.ckl.values
    f = forms()
    core.arm(7200)
    try:
        for ordinal in chunk["days"]:
            for sec in chunk["seconds"]:
                h, rem = divmod(sec, 3600)
                m, s = divmod(rem, 60)
                dt = mkdate(ordinal, h, m, s)
                o = core.outcome_raw(lambda: D.to_date(D.to_oa_date(dt)))
                agg.count("steps")
                if o[0] != "value" or not same_second(o[1], dt):
                    agg.violation(
                        {"law": "roundtrip-to-the-second"},
                        {"t": "sec", "ordinal": ordinal, "sec": sec},
                        str(dt), str(o[1]) if o[0] == "value" else o[:2],
                        size=sec)
                if sec % chunk["lang_every"] == 0:
                    d = V.ValueDate(dt)
                    # int(d) is the day number of the calendar day and
                    # date(int(d)) its midnight, whatever the time of day
                    r = f.ev("int", d=d)
                    agg.count("steps")
                    if not matches(r, ("int", ordinal - BASE)):
                        agg.violation(
                            {"law": "program:int(date with time)"},
                            {"t": "sec", "ordinal": ordinal, "sec": sec,
                             "lang": True, "int": True},
                            ordinal - BASE, core.show_raw(r), size=sec)
                    r = f.ev("date_int", d=d)
                    agg.count("steps")
                    if not matches(r, mkdate(ordinal)):
                        agg.violation(
                            {"law": "program:date(int(date with time))"},
                            {"t": "sec", "ordinal": ordinal, "sec": sec,
                             "lang": True, "int": True},
                            mkdate(ordinal), core.show_raw(r), size=sec)
                    r = f.ev("date_dec", d=d)
                    agg.count("steps")
                    if not (r[0] == "value" and isinstance(
                            r[1], V.ValueDate) and same_second(r[1].value,
                                                               dt)):
                        agg.violation(
                            {"law": "program:date(decimal(d))"},
                            {"t": "sec", "ordinal": ordinal, "sec": sec,
                             "lang": True}, str(dt), core.show_raw(r),
                            size=sec)
                    # d + fraction of a day lands on the right second
                    r = f.ev("add", d=V.ValueDate(mkdate(ordinal)),
                             n=V.ValueDecimal(sec / 86400))
                    agg.count("steps")
                    if not (r[0] == "value" and isinstance(
                            r[1], V.ValueDate) and same_second(r[1].value,
                                                               dt)):
                        agg.violation(
                            {"law": "program:d + fraction"},
                            {"t": "sec", "ordinal": ordinal, "sec": sec,
                             "lang": True, "add": True}, str(dt),
                            core.show_raw(r), size=sec)
            # differences between instants: k days and a few seconds apart
            # ((d + n) - d == n to the second, also right next to whole days)
            base = mkdate(ordinal)
            for k in (0, 1, 2):
                for sec in NEAR_SECONDS:
                    if k == 0 and sec < 0:
                        continue
                    try:
                        other = base + datetime.timedelta(days=k,
                                                          seconds=sec)
                    except OverflowError:
                        continue          # beyond 9999-12-31
                    r = f.ev("sub", d=V.ValueDate(other),
                             n=V.ValueDate(base))
                    agg.count("steps")
                    want = k * 86400 + sec
                    ok = r[0] == "value" and isinstance(
                        r[1], (V.ValueInt, V.ValueDecimal)) and \
                        abs(r[1].value * 86400 - want) < 0.5
                    if not ok:
                        agg.violation(
                            {"law": "program:difference-to-the-second"},
                            {"t": "diff", "ordinal": ordinal, "k": k,
                             "sec": sec}, want / 86400,
                            core.show_raw(r), size=abs(sec) + k)
            agg.cls(("seconds", ordinal))
            agg.count("cases")
    finally:
        core.disarm()
    return agg


def replay(case, verbose=False):
    agg = core.Agg()
    if case["t"] in ("text", "fields"):
        a = core.Agg()
        check_texts(a, case["year"])
        if verbose:
            print(a.viol)
        return bool(a.viol)
    if case["t"] == "range":
        a = explore_range({"numbers": [int(case["n"])]})
        if verbose:
            print(a.viol)
        return bool(a.viol)
    if case["t"] == "diff":
        a = explore_seconds({"days": [case["ordinal"]], "seconds": [],
                             "lang_every": 1})
        hit = [v for k, (sz, v) in a.viol.items()
               if v["case"].get("t") == "diff"]
        if verbose:
            print(hit)
        return bool(hit)
    if case["t"] == "day":
        check_day(agg, case["ordinal"], True)
    elif case["t"] == "stride":
        check_strides(agg, case["ordinal"])
    else:
        a = explore_seconds({"days": [case["ordinal"]],
                             "seconds": [case["sec"]], "lang_every": 1})
        agg.merge(a)
    if verbose:
        for k, (sz, v) in agg.viol.items():
            print(v)
    return bool(agg.viol)


def main(tier, seed):
    t0 = time.time()
    def special(y):
        return (y <= 1904 or 1968 <= y <= 1972 or 1999 <= y <= 2001 or
                2019 <= y <= 2025 or 2099 <= y <= 2101 or y >= 9997 or
                y % 100 in (0, 1, 99))
    if tier == "quick":
        lo, hi = FIRST, datetime.date(2101, 1, 1).toordinal()
        ranges = []
        step = (hi - lo) // (core.NPROC * 4) + 1
        for a in range(lo, hi, step):
            ranges.append((a, min(a + step, hi), False))
        for (y0, y1) in ((1969, 1972), (1999, 2000), (2023, 2024)):
            ranges.append((dn_ord(y0, 1, 1), dn_ord(y1, 12, 31) + 1, True))
        years = [(y, ("strides" if (special(y) and y % 100 not in (1, 99))
                      or y in (1901, 1999, 2001, 2099, 2101)
                      else "deep") if special(y) else "conv")
                 for y in range(1900, 10000)
                 # (conversions cost O(years): beyond 3000 the quick tier
                 # keeps every 12th year, the years around every century and
                 # the last decade; thorough keeps all)
                 if y <= 3000 or y % 12 == 0 or y % 100 in (0, 1, 4, 99)
                 or y >= 9990]
        sec_days = [FIRST, dn_ord(1970, 1, 1), dn_ord(2024, 2, 29),
                    dn_ord(9999, 12, 31)]
        seconds = list(range(0, 86400, 7)) + [86399, 43200, 1, 59, 3599]
        lang_every = 7
    else:
        ranges = []
        step = 20000
        for a in range(FIRST, LAST + 1, step):
            ranges.append((a, min(a + step, LAST + 1), a < 800000))
        years = [(y, "strides") for y in range(1900, 10000)]
        sec_days = [FIRST, dn_ord(1969, 12, 31), dn_ord(1970, 1, 1),
                    dn_ord(2000, 2, 29), dn_ord(2024, 12, 31),
                    dn_ord(5000, 6, 15), dn_ord(9999, 1, 1),
                    dn_ord(9999, 12, 31)]
        seconds = list(range(86400))
        lang_every = 1
    jobs = [{"ranges": [r], "years": []} for r in ranges]
    for c in core.chunked(years, core.NPROC * 4):
        jobs.append({"ranges": [], "years": c,
                     "texts_all": tier == "thorough"})
    agg = core.pmap(explore_days, jobs)
    agg.merge(core.pmap(explore_range, [{"numbers": [n]}
                                        for n in OUT_OF_RANGE]))
    sjobs = []
    for d in sec_days:
        secs = seconds
        if tier == "quick" and d > dn_ord(3000, 1, 1):
            secs = list(range(0, 86400, 61)) + [86399, 43200]
        for c in core.chunked(secs, 8):
            sjobs.append({"days": [d], "seconds": c,
                          "lang_every": lang_every})
    agg.merge(core.pmap(explore_seconds, sjobs))
    agg.sample({"strides_applied_to_boundary_days": STRIDES})
    core.finish(
        PID, tier, seed, agg, t0,
        rule=("every calendar day " +
              ("1900-01-01..2100-12-31" if tier == "quick"
               else "1900-01-01..9999-12-31") +
              " through to_oa_date/to_date (and 11 language forms incl. +-1 "
              "day), the 6-7 boundary days of " + (
                  "every year 1900..3000 and of about every 8th year up to "
                  "9999" if tier == "quick" else "every year 1900..9999") +
              " with "
              f"all strides +-{STRIDES}, and " +
              ("every 7th" if tier == "quick" else "every") +
              f" second of the day on {len(sec_days)} days, differences of "
              f"instants 0-2 days and {NEAR_SECONDS} seconds apart; "
              "reference = "
              "datetime.date ordinals; states = days, transitions = "
              "conversions/evaluations compared"),
        exhaustive=True,
        assumptions=["microseconds, years outside 1900..9999 and time zones "
                     "are out of scope"],
        replay_fn=replay,
    )


def dn_ord(y, m, d):
    return datetime.date(y, m, d).toordinal()
