"""C14 Program meaning is independent of layout, comments and literal
spelling.

E2 (deviation bounded): for every base program the renderer enumerates all
layouts with <= 2 non-default separators (plus leading/trailing layout) and
the scanner's token stream must equal the default rendering's (level L);
the default rendering, all 1-deviation layouts, the uniform layouts, every
single literal re-spelling, every single redundant parenthesis pair and every
optional semicolon are interpreted end to end and result, output and error
value must equal the default's (level E).
"""
import time

from mc import core
from mc.gen import layout as L
from mc.gen.corpus import BASE_PROGRAMS, EVAL_PROGRAMS

PID = "C14"


def stream(text):
    toks = core.ckl.lexer.Lexer(text, "p").scan().tokens
    out = []
    for t in toks:
        v = t.value
        if t.type == "operator" and v == "<>":
            v = "!="
        if t.type == "int":
            v = str(int(v))
        out.append((v, t.type))
    return out


def explore_L(chunk):
    agg = core.Agg()
    core.arm(3000)
    try:
        for prog in chunk["programs"]:
            tokens = L.tokenize(prog)
            if len(tokens) < 2:
                continue
            text, _ = L.render(tokens)
            try:
                base = stream(text)
            except core.CklSyntaxError:
                continue
            dev = 2 if len(tokens) <= chunk["dev2_limit"] else 1
            for seps in L.deviations(tokens, dev):
                text, _ = L.render(tokens, seps)
                agg.count("steps")
                try:
                    got = stream(text)
                except Exception as e:
                    got = repr(e)
                if got != base:
                    agg.violation({"level": "L", "what": "separators"},
                                  {"t": "L", "prog": prog, "text": text},
                                  base, got, size=len(text))
                    break
            for lead in L.LEADS:
                for trail in L.TRAILS:
                    text, _ = L.render(tokens, None, lead, trail)
                    agg.count("steps")
                    try:
                        got = stream(text)
                    except Exception as e:
                        got = repr(e)
                    if got != base:
                        agg.violation(
                            {"level": "L", "what": "lead/trail"},
                            {"t": "L", "prog": prog, "text": text},
                            base, got, size=len(text))
            for toks2 in L.spelling_variants(tokens):
                text, _ = L.render(toks2)
                agg.count("steps")
                try:
                    got = stream(text)
                except Exception as e:
                    got = repr(e)
                if got != base:
                    agg.violation({"level": "L", "what": "spelling"},
                                  {"t": "L", "prog": prog, "text": text},
                                  base, got, size=len(text))
            agg.cls(("L", len(tokens)))
            agg.count("cases")
    finally:
        core.disarm()
    return agg


_S = {}


def session():
    if "s" not in _S:
        core.install_fuel()
        _S["s"] = core.Session()
    return _S["s"]


def observe(text):
    s = session().reset()
    o = s.run(text, "prog", fuel=100000)
    if o[0] == "syn":
        o = ("syn",)
    return (o, s.stdout())


def explore_E(chunk):
    agg = core.Agg()
    for prog in chunk["programs"]:
        tokens = L.tokenize(prog)
        text, _ = L.render(tokens)
        base = observe(text)
        agg.count("steps")
        if core.is_bad(base[0]) or base[0][0] == "syn":
            # the corpus is grammatical and runnable by construction; if one
            # program is not, its variants are still compared with it (a
            # variant that behaves differently is a violation)
            agg.count("base_not_runnable")

        def variant(what, text):
            got = observe(text)
            agg.count("steps")
            agg.cls(("E", what, base[0][0]))
            if got != base:
                agg.violation({"level": "E", "what": what},
                              {"t": "E", "prog": prog, "text": text},
                              [list(base[0]), base[1]],
                              [list(got[0]), got[1]], size=len(text))
        variant("original", prog)
        for seps in L.deviations(tokens, 1):
            variant("separator", L.render(tokens, seps)[0])
        for seps in L.uniform(tokens):
            variant("uniform", L.render(tokens, seps)[0])
        for lead in L.LEADS:
            for trail in L.TRAILS:
                variant("lead/trail", L.render(tokens, None, lead, trail)[0])
        for t2 in L.spelling_variants(tokens):
            variant("spelling", L.render(t2)[0])
            # ... and with nothing between the tokens wherever that is legal
            variant("spelling-tight", L.render(t2, L.tight(t2))[0])
        for t2 in L.paren_variants(tokens):
            variant("parentheses", L.render(t2)[0])
        for t2 in L.signed_paren_variants(tokens):
            variant("parentheses-signed", L.render(t2)[0])
        for t2 in L.element_paren_variants(tokens):
            variant("parentheses-element", L.render(t2)[0])
        for t2 in L.bracket_literal_paren_variants(tokens):
            variant("parentheses-literal", L.render(t2)[0])
        for t2 in L.key_paren_variants(tokens):
            variant("parentheses-key", L.render(t2)[0])
        for t2 in L.operand_paren_variants(tokens):
            variant("parentheses-operand", L.render(t2)[0])
        for t2 in L.semicolon_variants(tokens):
            variant("semicolon", L.render(t2)[0])
        # combined: every uniform layout on every re-spelled token list
        if chunk["combine"]:
            for t2 in list(L.spelling_variants(tokens)) + \
                    list(L.semicolon_variants(tokens)):
                for seps in L.uniform(t2):
                    variant("combined", L.render(t2, seps, "\n", "\n")[0])
        agg.count("cases")
        agg.sample({"program": prog, "observation": [list(base[0]),
                                                     base[1]]}, 2)
    return agg


def explore_P(chunk):
    """redundant parentheses around operands: every flat `a op1 b op2 c`
    against the same expression with every sub-expression parenthesised as
    the stated precedence groups it (differential, implementation only)"""
    from mc.props import c02
    from mc.ref import refeval as E
    import itertools
    agg = core.Agg()
    for (o1, o2) in chunk["pairs"]:
        for a, b, c in itertools.product(chunk["operands"], repeat=3):
            toks = [c02.leaf(a), o1, c02.leaf(b), o2, c02.leaf(c)]
            flat = c02.flat_text(toks)
            full = E.render(c02.ref_parse(list(toks)), True)
            base, got = observe(flat), observe(full)
            agg.count("steps", 2)
            agg.cls(("P", base[0][0]))
            if got != base:
                agg.violation({"level": "P", "op1": o1, "op2": o2},
                              {"t": "P", "prog": flat, "text": full},
                              [list(base[0]), base[1]],
                              [list(got[0]), got[1]], size=len(flat))
        agg.count("cases")
    return agg


def replay(case, verbose=False):
    if case["t"] == "P":
        base, got = observe(case["prog"]), observe(case["text"])
        if verbose:
            print(repr(case["prog"]), "->", base)
            print(repr(case["text"]), "->", got)
        return got != base
    tokens = L.tokenize(case["prog"])
    default = L.render(tokens)[0]
    if case["t"] == "L":
        base = stream(default)
        try:
            got = stream(case["text"])
        except Exception as e:
            got = repr(e)
        if verbose:
            print(repr(case["text"]))
            print("default:", base)
            print("variant:", got)
        return got != base
    base = observe(default)
    got = observe(case["text"])
    if verbose:
        print(repr(default), "->", base)
        print(repr(case["text"]), "->", got)
    return got != base


def main(tier, seed):
    t0 = time.time()
    progs = BASE_PROGRAMS + EVAL_PROGRAMS
    agg = core.pmap(explore_L, [
        {"programs": c, "dev2_limit": 14 if tier == "quick" else 40}
        for c in core.chunked(progs, core.NPROC * 4)])
    agg.merge(core.pmap(explore_E, [
        {"programs": c, "combine": tier == "thorough"}
        for c in core.chunked(EVAL_PROGRAMS, core.NPROC * 3)]))
    from mc.props import c02
    pairs = [(a, b) for a in c02.BINOPS for b in c02.BINOPS]
    agg.merge(core.pmap(explore_P, [
        {"pairs": c, "operands": [3, 2, "z"] if tier == "quick"
         else [3, -2, 1.5, "z", True]}
        for c in core.chunked(pairs, core.NPROC * 2)]))
    if agg.n.get("base_not_runnable", 0) > len(EVAL_PROGRAMS) // 5:
        core.harness_error("most base programs do not run")
    core.finish(
        PID, tier, seed, agg, t0,
        rule=(f"{len(progs)} base programs: level L = scanner token stream "
              f"under all layouts with <= 2 separator deviations "
              f"({len(L.SEPS)} separators incl. comments, CRLF and, where "
              f"legal, none), all lead/trail layouts and all single literal "
              f"re-spellings; level E = {len(EVAL_PROGRAMS)} evaluable "
              f"programs interpreted under all 1-deviation and uniform "
              f"layouts, lead/trail layouts, single re-spellings (hex, "
              f"binary, underscore, leading zero ints; quote style and "
              f"escapes; != / <>), single redundant parentheses around "
              f"literals, signed literals, one call argument or list "
              f"element, optional semicolons (blocks and class members); "
              f"level P = every flat a op1 b op2 c over {len(pairs)} operator "
              f"pairs against its fully parenthesised text; class = (level, "
              f"variant kind, outcome kind)"),
        exhaustive=True,
        assumptions=["whitespace inside string literals and removal of "
                     "separators where tokens would fuse are not layout "
                     "changes"],
        replay_fn=replay,
        states_key="steps", transitions_key="steps",
    )
