"""C08 Rendering is canonical and data literals round-trip through print and
parse.

E1: all generated data values (atoms incl. decimals over all magnitudes and
all strings of length <= 2 over an adversarial alphabet; containers to depth
3 built by closure; every insertion order of every <= 5-subset of a 7-value
pool): the text form has the stated shape, does not depend on construction
order, and evaluating it yields an equal value of the same type that renders
to the same text.
"""
import itertools
import re
import time

from mc import core
from mc.ref import refvalue as R

PID = "C08"

STR_ALPHA = ["'", '"', "\\", "\n", "\r", "\t", "\0", "#", "/", "{", "}",
             "<", ">", " ", "a", "x", "é", "€"]


TOKEN_STRINGS = [
    "(", ")", "[", "]", ",", ";", "=", "+", "-", "*", "%", "<<", ">>", "<<<",
    ">>>", "<*", "*>", "=>", "->", "!>", "...", "==", "!=", "<>", "<=", ">=",
    "+=", "def", "fn", "do", "end", "if", "then", "elif", "else", "for",
    "in", "is", "not", "and", "or", "return", "error", "break", "continue",
    "while", "require", "catch", "finally", "also", "keys", "values",
    "entries", "all", "to", "class", "FALSE", "0x1F", "-1", "1e3"]


def atoms(tier="quick"):
    out = [None, True, False]
    out += [0, 1, -1, 2 ** 31, -2 ** 31, 2 ** 63, -2 ** 63, 10 ** 30,
            -10 ** 30, 7, 255]
    decs = []
    for d in (1.0, 1.5, 1.2345678901234567, 9.999999999999999):
        for e in range(-30, 31):
            x = float(f"{d!r}e{e}")
            decs += [x, -x]
    decs += [5e-324, 2.2250738585072014e-308, 1.7976931348623157e308,
             0.1 + 0.2, -0.0, 0.0, 1e16, 1e15, 123456789012345680.0,
             1e22, 1e23, 0.0001, 0.00001]
    out += decs
    strs = [""] + STR_ALPHA + [a + b for a in STR_ALPHA for b in STR_ALPHA]
    sub = STR_ALPHA if tier == "thorough" else ["'", "\\", "\n", "#", "/",
                                                "<", " ", "a"]
    strs += [a + b + c for a in sub for b in sub for c in sub]
    strs += ["\\x41", "//", "'#", "a//b", "# c", "{x}", "<<1>>", "'''",
             "\\'", "\\\\", "a\\", "TRUE", "NULL", "1", "1.0", "ab\ncd"]
    # strings whose whole content is one token of the language
    strs += TOKEN_STRINGS
    out += strs
    out += [("pat", "a"), ("pat", "."), ("pat", "[a-z]+"), ("pat", "\\d"),
            ("pat", "a/b"), ("pat", "a//b"), ("pat", "a/"), ("pat", "'"),
            ("pat", ""),
            # patterns render their text raw: line ends inside them survive
            ("pat", "a\r\nb"), ("pat", "a\nb"), ("pat", "a\rb"),
            ("pat", "a\n\rb"), ("pat", "\t#x")]
    return out


SMALL = [None, True, 0, -1, 1.5, -0.0, 1e16, 1e-7, "", "'", "\\", "a#",
         "//", "<", ">", ">>", "<<", ("pat", "a."), -2 ** 63, 2.5e-10]


def wrap1(x):
    return [[x], ("set", [x]), ("map", [(x, x)]), [x, x],
            ("set", [x, "z"]), ("map", [("k", x)]), ("map", [(x, "v")])]


def containers(tier="quick"):
    l1 = [[], ("set", []), ("map", [])]
    if tier == "thorough":
        for a, b in itertools.product(SMALL, repeat=2):
            l1 += [[a, b], ("set", [a, b]), ("map", [(a, b)]),
                   ("map", [(a, 1), (b, 2)])]
    for a in SMALL:
        l1 += wrap1(a)
    l2 = []
    for c in l1:
        l2 += wrap1(c)
    l3 = []
    for c in l2[::9]:
        l3 += wrap1(c)[:3]
    extra = [
        ("set", [("set", [])]),
        ("set", [1, ("set", [2])]),
        ("set", [("set", [2]), 1]),
        ("map", [(1, ("set", [2]))]),
        ("map", [(("set", [2]), 1)]),
        ("map", [(("map", []), ("map", []))]),
        ("set", [("map", [])]),
        ("set", [("map", [(1, 2)]), ("set", [3])]),
        [("set", [("set", [("set", [])])])],
        ("map", [("a", 1), ("b", [2, ("set", [3, "c"])]), (3, None)]),
        ("map", [("if", 1), ("do", 2), ("a b", 3)]),
        [1, [2, [3, [4]]]],
    ]
    return l1 + l2 + l3 + extra


ORDER_POOL = [3, 1.5, "b", "a", "'", [1], ("set", [2]), -1, "A",
              ("pat", "x"), True, None, ("map", [(1, 2)]),
              # a list, a proper prefix of it and an extension of it
              [], [1, 3], [1, 3, 0]]


def hazard(p):
    k = R.kind(p)
    if k == "pattern":
        return "pattern-slashes" if ("//" in p[1] or p[1].endswith("/")) \
            else ""
    if k == "list":
        return next((h for h in map(hazard, p) if h), "")
    if k == "set":
        return next((h for h in map(hazard, p[1]) if h), "")
    if k == "map":
        return next((h for kv in p[1] for h in map(hazard, kv) if h), "")
    return ""


_S = {}


def session():
    if "s" not in _S:
        core.install_fuel()
        _S["s"] = core.Session()
    return _S["s"]


def check_value(agg, p, tag="value"):
    """all C08 obligations for one plain value p"""
    v = core.to_value(p)
    k = R.kind(p)
    hz = hazard(p)

    def bad(law, expd, obs):
        agg.violation({"law": law, "kind": k, "hazard": hz},
                      {"t": tag, "v": p, "law": law}, expd, obs,
                      size=len(repr(p)))
    o = core.outcome_raw(lambda: str(v))
    agg.count("steps")
    if o[0] != "value":
        bad("render-raises", "text", list(o[:2]))
        return None
    text = o[1]
    # (1) shape of the text form
    if k == "int":
        if text != str(p):
            bad("int-renders-as-integer-numeral", str(p), text)
    elif k == "decimal":
        if not R.DEC_RE.match(text):
            bad("decimal-renders-with-fractional-part", "-?d+.d+", text)
        else:
            if float(text) != p or (p == 0 and str(float(text))[0] != str(p)[0]):
                bad("decimal-text-denotes-the-value", repr(p), text)
    elif k == "string":
        if not (len(text) >= 2 and text[0] in "'\"" and text[-1] == text[0]):
            bad("string-renders-quoted", "'...'", text)
        elif any(c in text[1:-1] for c in "\n\r\t"):
            bad("string-special-characters-escaped", "escaped", text)
    elif k == "null" and text != "NULL":
        bad("null-text", "NULL", text)
    elif k == "boolean" and text != ("TRUE" if p else "FALSE"):
        bad("boolean-text", "TRUE/FALSE", text)
    agg.cls((k, len(text) > 12, hz))
    # (3) round trip
    s = session().reset()
    r = s.run(text, "roundtrip", fuel=50000)
    agg.count("steps")
    if r[0] != "value":
        bad("roundtrip-evaluates", text, list(r))
        return text
    try:
        back = s.interp.interpret(text, "roundtrip")
    except BaseException as e:  # pragma: no cover
        bad("roundtrip-evaluates", text, repr(e))
        return text
    if not (back == v and v == back):
        bad("roundtrip-equal", text, repr(back))
    elif back.type() != v.type():
        bad("roundtrip-same-type", v.type(), back.type())
    elif str(back) != text:
        bad("roundtrip-same-text", text, str(back))
    if k in ("int", "decimal"):
        # every path that turns a number into text agrees with string()
        s.interp.environment.put("v", v)
        r = s.run("[string(v), '' + v, v + '', s('{v}'), "
                  "'<' + v + '>', join([v], ',')]", "paths", fuel=50000)
        agg.count("steps")
        want = [text, text, text, text, "<" + text + ">", text]
        got = core.from_value(s.interp.interpret(
            "[string(v), '' + v, v + '', s('{v}'), '<' + v + '>', "
            "join([v], ',')]", "paths")) if r[0] == "value" else list(r)
        if got != want:
            bad("one-text-form-on-every-path", want, got)
    return text


def explore_values(chunk):
    agg = core.Agg()
    core.arm(900)
    try:
        for p in chunk["values"]:
            t = check_value(agg, p)
            agg.count("cases")
            if agg.n["cases"] % 400 == 1:
                agg.sample({"value": repr(p), "text": t})
    finally:
        core.disarm()
    return agg


def explore_orders(chunk):
    agg = core.Agg()
    V = core.ckl.values
    core.arm(900)
    try:
        for subset in chunk["subsets"]:
            ref = None
            for perm in itertools.permutations(subset):
                s = V.ValueSet()
                m = V.ValueMap()
                for i, x in enumerate(perm):
                    s.addItem(core.to_value(x))
                for x in perm:
                    m.addItem(core.to_value(x), core.to_value([x]))
                texts = (str(s), str(m), str(core.to_value([0])
                                             .addItem(s).addItem(m)))
                agg.count("steps")
                if ref is None:
                    ref = texts
                    # round trip of the set and the map themselves
                    check_value(agg, ("set", list(perm)), "order")
                    check_value(agg, ("map", [(x, [x]) for x in perm]),
                                "order")
                elif texts != ref:
                    agg.violation(
                        {"law": "rendering-independent-of-insertion-order",
                         "kind": "set/map", "hazard": ""},
                        {"t": "perm", "perm": list(perm),
                         "first": list(subset)}, ref, texts,
                        size=len(perm))
                agg.cls(("order", len(subset)))
            agg.count("cases")
    finally:
        core.disarm()
    return agg


def _fix(x):
    if isinstance(x, list):
        if len(x) == 2 and x[0] in ("set", "map", "pat", "date"):
            if x[0] == "set" and isinstance(x[1], list):
                return ("set", [_fix(e) for e in x[1]])
            if x[0] == "map" and isinstance(x[1], list):
                return ("map", [(_fix(k), _fix(v)) for k, v in x[1]])
            if x[0] in ("pat", "date") and isinstance(x[1], str):
                return (x[0], x[1])
        return [_fix(e) for e in x]
    return x


# ---- data values as library calls produce them --------------------------------
_SW = {}


def _sweep_session():
    from mc import sweep
    if "s" not in _SW:
        V = core.ckl.values
        # numbers at which the host's floats stop being exact (this
        # process's copy of the pool only)
        for name, val in (("2^53+1", V.ValueInt(2 ** 53 + 1)),
                          ("10^30", V.ValueInt(10 ** 30)),
                          ("-2^63-1", V.ValueInt(-2 ** 63 - 1)),
                          ("2^53+1.0", V.ValueDecimal(float(2 ** 53 + 2))),
                          ("1e300", V.ValueDecimal(1e300)),
                          # a text for the parsers of other notations
                          ("'[1, true, {\"a\": 1.5, \"b\": false}]'",
                           V.ValueString('[1, true, {"a": 1.5, '
                                         '"b": false}]')),
                          ("date('20200301')", V.ValueDate(
                              __import__("datetime").datetime(2020, 3, 1)))):
            if name not in sweep.POOL_INDEX:
                sweep.POOL.append((name, lambda s, val=val: val))
                sweep.POOL_INDEX[name] = len(sweep.POOL) - 1
        _SW["s"] = sweep.SweepSession(legacy=True)
    return _SW["s"]


def is_data(v, depth=0, seen=None):
    """NULL, booleans, ints, decimals, strings, patterns and finite lists,
    sets and maps of them"""
    V = core.ckl.values
    if seen is None:
        seen = set()
    if v is V.NULL or isinstance(v, (V.ValueBoolean, V.ValueInt,
                                     V.ValueString, V.ValuePattern)):
        return True
    if isinstance(v, V.ValueDecimal):
        x = v.value
        return not (isinstance(x, float) and (x != x or x in (
            float("inf"), float("-inf"))))
    if depth > 5 or id(v) in seen:
        return False
    seen.add(id(v))
    if isinstance(v, (V.ValueList, V.ValueSet)):
        return all(is_data(e, depth + 1, seen) for e in v.value)
    if isinstance(v, V.ValueMap):
        return all(is_data(k, depth + 1, seen) and is_data(w, depth + 1, seen)
                   for k, w in v.value.items())
    return False


def pattern_hazard(v, depth=0):
    V = core.ckl.values
    if isinstance(v, V.ValuePattern):
        t = str(v.value)
        return "//" in t or t.endswith("/")
    if depth > 5:
        return False
    if isinstance(v, (V.ValueList, V.ValueSet)):
        return any(pattern_hazard(e, depth + 1) for e in v.value)
    if isinstance(v, V.ValueMap):
        return any(pattern_hazard(k, depth + 1) or pattern_hazard(w, depth + 1)
                   for k, w in v.value.items())
    return False


def result_faults(v):
    """list of (law, expected, observed) for one data value v as it came out
    of a library call"""
    V = core.ckl.values
    out = []
    o = core.outcome_raw(lambda: str(v))
    if o[0] != "value":
        return [("render-raises", "text", list(o[:2]))]
    text = o[1]
    if len(text) > 4000:
        return []
    if isinstance(v, V.ValueInt) and not re.fullmatch(r"-?\d+", text):
        out.append(("int-renders-as-integer-numeral", "-?d+", text))
    if isinstance(v, V.ValueDecimal) and not R.DEC_RE.match(text):
        out.append(("decimal-renders-with-fractional-part", "-?d+.d+", text))
    s = session().reset()
    r = s.run(text, "roundtrip", fuel=50000)
    if r[0] != "value":
        return out + [("roundtrip-evaluates", text, list(r))]
    try:
        back = s.interp.interpret(text, "roundtrip")
    except BaseException as e:  # pragma: no cover
        return out + [("roundtrip-evaluates", text, repr(e))]
    if not (back == v and v == back):
        out.append(("roundtrip-equal", text, repr(back)))
    elif back.type() != v.type():
        out.append(("roundtrip-same-type", v.type(), back.type()))
    elif str(back) != text:
        out.append(("roundtrip-same-text", text, str(back)))
    return out


def call_result(fname, argnames):
    from mc import sweep
    s = _sweep_session()
    fn = dict(s.funcs)[fname]
    # (a short wall clock: the big numbers of this pool make size
    # arguments such as range(n) run out of it - not this check's matter)
    o, args = s.call(fn, tuple(argnames), wall=0.25)
    return o


_SEEN = set()


def explore_results(chunk):
    from mc import sweep
    agg = core.Agg()
    s = _sweep_session()
    fmap = dict(s.funcs)
    names = [n for n, _ in sweep.POOL if n not in sweep.FORMS_ONLY]
    for fname in chunk["funcs"]:
        n = sweep.nparams_of(fmap[fname])
        tuples = [()]
        if n >= 1:
            tuples += [(a,) for a in names]
        if n >= 2:
            pool2 = names if chunk["tier"] == "thorough" else \
                sweep.SUBPOOL + ["date('20200229')", "date('20200301')"]
            tuples += [(a, b) for a in pool2 for b in pool2]
        for t in tuples:
            o = call_result(fname, t)
            agg.count("steps")
            if o[0] != "value" or not is_data(o[1]):
                continue
            hz = "pattern-slashes" if pattern_hazard(o[1]) else ""
            agg.cls(("result", o[1].type(), hz))
            # one verdict per distinct (callee, deep kinds, text)
            key = (fname, repr(core.from_value(o[1])))
            if key in _SEEN:
                continue
            _SEEN.add(key)
            for law, expd, obs in result_faults(o[1]):
                agg.violation(
                    {"law": law, "kind": o[1].type(), "hazard": hz,
                     "callee": fname},
                    {"t": "result", "callee": fname, "args": list(t)},
                    expd, obs, size=len(t) * 100 + sum(len(x) for x in t))
        agg.count("cases")
    return agg


def replay(case, verbose=False):
    agg = core.Agg()
    if case["t"] == "result":
        o = call_result(case["callee"], case["args"])
        f = result_faults(o[1]) if o[0] == "value" and is_data(o[1]) else []
        if verbose:
            print(case, core.show_raw(o), f)
        return bool(f)
    if case["t"] in ("value", "order"):
        check_value(agg, _fix(case["v"]))
    else:
        explore_orders_into(agg, [_fix(e) for e in case["first"]])
    if verbose:
        for k, (sz, v) in agg.viol.items():
            print(v)
    return bool(agg.viol)


def explore_orders_into(agg, subset):
    a = explore_orders({"subsets": [tuple(subset)]})
    agg.merge(a)


def main(tier, seed):
    t0 = time.time()
    vals = atoms(tier) + containers(tier)
    maxk = 4 if tier == "quick" else 5
    subsets = [c for k in range(2, maxk + 1)
               for c in itertools.combinations(ORDER_POOL, k)]
    agg = core.pmap(explore_values, [{"values": c} for c in
                                     core.chunked(vals, core.NPROC * 2)])
    agg.merge(core.pmap(explore_orders, [{"subsets": c} for c in
                                         core.chunked(subsets,
                                                      core.NPROC * 2)]))
    fnames = [f for f, _ in _sweep_session().funcs]
    agg.merge(core.pmap(explore_results,
                        [{"funcs": c, "tier": tier}
                         for c in core.chunked(fnames, core.NPROC * 4)]))
    core.finish(
        PID, tier, seed, agg, t0,
        rule=(f"every data value returned by {len(fnames)} library "
              f"functions x argument tuples of arity <= 2 over the value "
              f"pool of the call sweep; "
              f"{len(vals)} data values (atoms: ints to 10^30, decimals "
              f"+-d*10^e for 4 mantissas and every e in [-30,30] plus "
              f"extremes, all strings of length <= 2 over "
              f"{len(STR_ALPHA)} adversarial characters, patterns; "
              f"containers by closure to depth 3) and every insertion order "
              f"of all 2..{maxk}-subsets of a {len(ORDER_POOL)}-value pool; "
              f"class = (kind, long text, hazard)"),
        exhaustive=True,
        assumptions=["dates, functions, objects, streams and non-finite "
                     "decimals have no literal form and are out of scope"],
        replay_fn=replay,
        extra={"values": len(vals), "order_subsets": len(subsets)},
    )
