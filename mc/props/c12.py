"""C12 Results do not depend on hash seeds, process or construction order.

The only channels through which a hash seed or a construction order reaches
an observable are the iteration order of host sets (a function of element
hashes and insertion history) and the insertion order of host dicts.  Both
are owned and enumerated exhaustively: __hash__ of the str-backed value
classes is replaced by a table that is set to EVERY permutation of the hash
values 0..k-1 of the program's k strings, and every set/map is built in
EVERY insertion order.  Each program (explicit iteration / conversion /
spread / destructuring / rendering paths plus every library function that
accepts the collection, discovered at run time) must produce exactly one
observable outcome.  The same programs run unpatched in fresh processes under
8/32 real PYTHONHASHSEED values; every real outcome must equal the explored
one (conformance of the seam).
"""
import itertools
import json
import os
import subprocess
import sys
import time

from mc import core

PID = "C12"

STRS = ["b", "a", "dd", "c", "ab"]
MIXED = ["12", 2, "a", 1.5, "b"]
INTS = [3, 1, 20, 10, 2]     # keys that become positional when spread
PATS = ["b", ("pat", "a"), "c", ("pat", "d"), 1]   # patterns next to strings
ODD = [None, True, [1], 3, False]     # NULL, booleans and a list next to ints
EXTRA = ["e", "a"]           # strings used by the paths themselves

G = "do def r = []; def g(x) do append(r, x); x end; "
PATHS = {
    # name: expression over s (set) / m (map) / t (second set)
    "render": "string(s)", "value": "s", "in_list": "[s, 1]",
    "print": "do print(s); println(s); NULL end",
    "for": "do def r = []; for x in s do append(r, x); end; r end",
    "for_print": "for x in s do print(x) end",
    "lc": "[x for x in s]", "lc_if": "[x for x in s if x != 'a']",
    "sc": "<<[x] for x in s>>", "mc": "<<<x => 1 for x in s>>>",
    "lc2": "[[x, y] for x in s for y in s]",
    "lc_par": "[[x, y] for x in s also for y in s]",
    "list": "list(s)", "spread": "[...s]", "spread_call": "fargs(...s)",
    "def_destr": "do def [p, q] = s; [p, q] end",
    "assign_destr": "do def p = 0; def q = 0; [p, q] = s; [p, q] end",
    "for_destr": "do def r = []; for [p, q] in [s] do append(r, [p, q]); end; r end",
    "for_destr_pad": "do def r = []; for [p, q, u, v, w, z] in [s, t] do "
                     "append(r, [p, q, u, v, w, z]); end; r end",
    "def_destr_pad": "do def [p, q, u, v, w, z] = s; [p, q, u, v, w, z] end",
    "assign_destr_pad": "do def p = 0; def q = 0; def u = 0; def v = 0; "
                        "def w = 0; [p, q, u, v, w] = s; [p, q, u, v, w] end",
    "set_in_set_for": "do def r = []; for x in <<s, t, <<'e'>> >> do "
                      "append(r, x); end; r end",
    "set_of_sets_list": "list(<<s, t, <<'a'>>, <<'e', 'b'>> >>)",
    "sets_sorted": "sorted([t, s, <<'e'>>, <<'b', 'a'>>])",
    "plus": "s + <<'e'>>", "plus_list": "s + ['e', 'a']",
    "minus": "s - <<'a'>>", "list_plus": "['z'] + s",
    "list_minus": "['a', 'z', 'b'] - s", "elem_plus": "'e' + s",
    "sorted": "sorted(s)", "sorted_key": "sorted(s, key = fn(x) length(string(x)))",
    "sorted_cmp": "sorted(s, cmp = fn(x, y) compare(length(string(x)), length(string(y))))",
    "join": "join(list(s), ',')", "min": "min(list(s))",
    "unique": "unique(list(s) + list(s))",
    "union": "union(s, t)", "intersection": "intersection(s, t)",
    "diff": "diff(s, t)", "symdiff": "symmetric_diff(s, t)",
    "enumerate": "enumerate(list(s))", "zip": "zip(list(s), list(t))",
    "count": "count(s, 'a')", "contains": "contains(s, 'a')",
    "in": "'a' in s", "eq": "s == t", "eq2": "s == set(list(s))",
    "in_set": "s in <<t, s>>", "length": "length(s)",
    "choice": "do set_seed(3); choice(list(s)) end",
    "sample": "do set_seed(5); sample(list(s), 2) end",
    # the seeded generator: every seed, also the ones whose internal state
    # passes through zero, gives one fixed sequence
    # values that render alike (ties of the sort order): the enumeration
    # must still not depend on addresses or hash seeds
    "lambda_set": "do def r = []; def fs = <<fn() append(r, 1), "
                  "fn() append(r, 2), fn() append(r, 3), fn() append(r, 4)>>; "
                  "for f in fs do f() end; r end",
    "lambda_keys": "do def r = []; def m0 = <<<>>>; "
                   "m0[fn() 'a'] = 1; m0[fn() 'b'] = 2; m0[fn() 'c'] = 3; "
                   "[k() for k in keys m0] end",
    # module objects list their members in definition order
    "mod_members": "do require Stat as Q; [m for m in Q] end",
    "mod_render": "do require Set as Q; string(Q) end",
    "mod_ls": "do require List as Q; ls(Q) end",
    "mod_for": "do require Bitwise as Q; def r = []; "
               "for m in keys Q do append(r, m); end; r end",
    # pairs given as sets have no first and second element
    "map_of_set_pairs": "map([s, t])",
    "map_of_set_pair": "map([<<'alpha', 'beta'>>, <<'gamma', 1>>])",
    "rand_seed0": "do set_seed(0); [random(1000), random(1000), random(1000)] end",
    "rand_seed22643": "do set_seed(22643); [random(1000), random(1000), random(1000)] end",
    "rand_seed1": "do set_seed(1); [random(), random(10), random(3, 9)] end",
    "choice_set": "do set_seed(3); [choice(s), choice(s)] end",
    "sample_set": "do set_seed(5); sample(s, 2) end",
    "choices_set": "do set_seed(9); choices(list(s), 3) end",
    "reduce": "reduce(list(s), fn(x, y) string(x) + string(y))",
    "filter": "filter(list(s), fn(x) x != 'a')",
    "map_list": "map_list(list(s), fn(x) [x])",
    "first_last": "[first(list(s)), last(list(s))]",
    "set_of_sets": "string(<<s, t>>)", "nested": "string([<<s>>, <<<s => s>>>])",
    "error_value": "error s", "error_list": "error [s]",
    "flatten": "flatten([list(s), s])", "chunks": "chunks(list(s), 2)",
    "grouped": "grouped(list(s))", "pairs": "pairs(list(s))",
    "object_set": "object([[string(x), 1] for x in s])",
    "if_empty": "s is empty", "boolean": "boolean(s)",
    # the order in which a comprehension visits its source is observable
    # through effects of the body and through which element fails first
    "sc_effect": G + "def q = <<g(x) for x in s>>; r end",
    "lc_effect": G + "def q = [g(x) for x in s]; r end",
    "mc_effect": G + "def q = <<<g(x) => 1 for x in s>>>; r end",
    "mc_effect_v": G + "def q = <<<x => g(x) for x in s>>>; r end",
    "sc_if_effect": G + "def q = <<x for x in s if g(x) != 'a'>>; r end",
    "sc2_effect": G + "def q = <<[g(x), y] for x in s for y in t>>; r end",
    "sc2_effect_y": G + "def q = <<[x, g(y)] for x in s for y in t>>; r end",
    "scpar_effect": G + "def q = <<[g(x), y] for x in s also for y in s>>; r end",
    "sc_error": "<<int(x) for x in s>>", "lc_error": "[int(x) for x in s]",
    "mc_error": "<<<int(x) => 1 for x in s>>>",
    "for_error": "for x in s do int(x) end",
    "sc_of_set_of_sets": G + "def q = <<g(x) for x in <<s, t, <<'e'>> >> >>; r end",
}
MAP_PATHS = {
    "render": "string(m)", "value": "m", "print": "do println(m); NULL end",
    "for_keys": "do def r = []; for k in keys m do append(r, k); end; r end",
    "for_values": "do def r = []; for v in values m do append(r, v); end; r end",
    "for_default": "do def r = []; for v in m do append(r, v); end; r end",
    "for_entries": "do def r = []; for e in entries m do append(r, e); end; r end",
    "for_destr": "do def r = []; for [k, v] in entries m do append(r, k); end; r end",
    "lc_keys": "[k for k in keys m]", "lc_values": "[v for v in values m]",
    "lc_entries": "[e for e in entries m]", "lc_default": "[e for e in m]",
    "sc_keys": "<<k for k in keys m>>", "mc": "<<<k => m[k] for k in keys m>>>",
    "list": "list(m)", "set": "set(m)", "list_set": "list(set(m))",
    "object": "object(m)", "object_str": "string(object(m))",
    "spread_call": "fkw(...m)", "spread_list": "[...m]",
    "enumerate": "enumerate(m)", "eq": "m == m2", "length": "length(m)",
    "count": "count(m, 1)", "contains": "contains(m, 'a')",
    "in": "'a' in m", "map_get": "map_get(m, 'a')", "index": "m['a']",
    "put": "do put(m, 'zz', 0); string(m) end",
    "remove": "do remove(m, 'a'); string(m) end",
    "nested": "string([m, <<m>>])", "error_value": "error m",
    "zip_map": "zip_map(list(set(m)), list(m))",
    "sorted_entries": "sorted([e for e in entries m])",
    "sc_effect": G + "def q = <<g(k) for k in keys m>>; r end",
    "sc_effect_default": G + "def q = <<g(k) for k in m>>; r end",
    "sc_effect_entries": G + "def q = <<g(e) for e in entries m>>; r end",
    "lc_effect_entries": G + "def q = [g(e) for e in entries m]; r end",
    "mc_effect": G + "def q = <<<g(k) => 1 for k in keys m>>>; r end",
    "mc_effect_values": G + "def q = <<<v => g(v) for v in values m>>>; length(r) end",
    "sc_error": "<<int(k) for k in keys m>>",
}
PRELUDE = ("def fargs(args...) args...; "
           "def fkw(a = 'A', b = 'B', c = 'C', dd = 'D', r...) [a, b, c, dd, r...];")

TABLE = {}
_orig = {}


def install_hash_seam():
    V = core.ckl.values
    if _orig:
        return
    for cls in (V.ValueString, V.ValuePattern):
        _orig[cls] = cls.__hash__

        def h(self, _o=cls.__hash__):
            v = TABLE.get(self.value)
            return _o(self) if v is None else v
        cls.__hash__ = h


def build_set(V, elems):
    s = V.ValueSet()
    for e in elems:
        s.addItem(core.to_value(e))
    return s


def build_map(V, elems):
    m = V.ValueMap()
    for i, e in enumerate(elems):
        m.addItem(core.to_value(e), V.ValueInt(rank(e)))
    return m


STRS_RANK = {"a": 1, "b": 2, "c": 1, "dd": 3, 2: 2, 1.5: 1, "ab": 2,
             "12": 3, 3: 33, 1: 11, 20: 55, 10: 44}

def rank(e):
    try:
        return STRS_RANK.get(e, 9)
    except TypeError:         # unhashable pool element (a list)
        return 7


_F = {}


def forms(extra_calls):
    key = tuple(sorted(extra_calls))
    if key not in _F:
        f = dict(("s:" + k, v) for k, v in PATHS.items())
        f.update(("m:" + k, v) for k, v in MAP_PATHS.items())
        f.update(extra_calls)
        _F[key] = core.Forms(f, secure=True, legacy=True, prelude=PRELUDE)
    return _F[key]


def observe(f, name, **vars_):
    f.session._bind_streams()
    core.ckl.functions.seed = 1
    core.set_fuel(50000, 50000)
    core.arm(10)
    try:
        o = f.ev(name, **vars_)
        if o[0] == "value":
            try:
                txt = repr(o[1])
            except BaseException as e:
                txt = "<render " + type(e).__name__ + ">"
            res = ["value", o[1].type() if hasattr(o[1], "type") else "?",
                   txt]
        else:
            res = core.show_raw(o)
    finally:
        core.disarm()
        core.set_fuel(10 ** 12, 10 ** 12)
    return json.dumps([res, f.session.out.getvalue()])


def hash_perms(strings, k):
    """every permutation of hash values 0..k-1 for the strings"""
    for perm in itertools.permutations(range(len(strings))):
        yield dict(zip(strings, perm))


def check_seam():
    """proof obligation: a probe set really iterates in the order the
    installed hash values ask for"""
    V = core.ckl.values
    install_hash_seam()
    for perm in itertools.permutations(range(4)):
        TABLE.clear()
        TABLE.update(dict(zip(STRS[:4], perm)))
        s = set(V.ValueString(x) for x in STRS[:4])
        got = [x.value for x in s]
        want = [x for _, x in sorted(zip(perm, STRS[:4]))]
        if got != want:
            TABLE.clear()
            return False, (perm, got, want)
    TABLE.clear()
    return True, None


def explore(chunk):
    agg = core.Agg()
    V = core.ckl.values
    install_hash_seam()
    f = forms(chunk["calls"])
    n = chunk["n"]
    for (kind, name) in chunk["paths"]:
        base = STRS[:n] if kind in ("s", "m", "call") else MIXED[:n]
        if kind in ("sx", "mx"):
            base = MIXED[:n]
        if kind in ("si", "mi"):
            base = INTS[:n]
        if kind in ("sp", "mp"):
            base = PATS[:n]
        if kind in ("so", "mo"):
            base = ODD[:n]
        strs = [x for x in base if isinstance(x, str)] + EXTRA[:1]
        outcomes = {}
        first = None
        for hp in hash_perms(strs, len(strs)):
            TABLE.clear()
            TABLE.update(hp)
            for cperm in itertools.permutations(base):
                s = build_set(V, cperm)
                tel = list(base[:-1]) + ["e"]
                k = list(base).index(cperm[0]) % len(tel)
                t = build_set(V, tel[k:] + tel[:k])
                m = build_map(V, cperm)
                m2 = build_map(V, list(reversed(cperm)))
                form = name if kind == "call" else \
                    kind[0] + ":" + name
                key = observe(f, form, s=s, t=t, m=m, m2=m2)
                agg.count("steps")
                if key not in outcomes:
                    outcomes[key] = (dict(hp), list(cperm))
                    if first is None:
                        first = key
        TABLE.clear()
        agg.cls((kind, name, len(outcomes)))
        agg.count("cases")
        if len(outcomes) > 1:
            keys = sorted(outcomes)
            agg.violation(
                {"path": kind + ":" + name},
                {"kind": kind, "name": name, "n": n,
                 "src": f.src[name if kind == "call"
                              else kind[0] + ":" + name],
                 "witness": [outcomes[keys[0]], outcomes[keys[1]]]},
                keys[0], keys[1:4], size=len(name))
        if agg.n["cases"] % 25 == 1:
            agg.sample({"path": f.src[name if kind == "call"
                                      else kind[0] + ":" + name],
                        "outcome": json.loads(first)[0],
                        "executions": agg.n["steps"]}, 3)
    return agg


def discover_calls():
    """every function of the legacy environment that accepts a set or a map
    (does not answer with an error) becomes a path automatically"""
    from mc import sweep
    s = sweep.SweepSession(legacy=True)
    V = core.ckl.values
    calls = {}
    probes = {
        "{f}(s)": 1, "{f}(m)": 1, "{f}(s, t)": 2, "{f}(s, 'a')": 2,
        "{f}('a', s)": 2, "{f}(['a', 'z'], s)": 2, "{f}(s, 1)": 2,
        "{f}(m, 'a')": 2, "{f}(m, m2)": 2,
        "{f}(list(s), fn(x) x != 'a')": 2, "{f}(s, fn(x) [x])": 2,
    }
    skip = {"print", "println", "error", "set_seed", "bind_native", "eval",
            "parse", "close", "timestamp", "date", "now", "random",
            "shuffle", "choice", "choices", "sample", "info", "ls", "body"}
    env = s.env
    for fname, fn in s.funcs:
        if "->" in fname or fname in skip:
            continue
        n = sweep.nparams_of(fn)
        for tpl, ar in probes.items():
            if ar > n:
                continue
            src = tpl.format(f=fname)
            e = env.newEnv()
            e.put("s", build_set(V, STRS[:4]))
            e.put("t", build_set(V, STRS[:2] + ["e"]))
            e.put("m", build_map(V, STRS[:4]))
            e.put("m2", build_map(V, STRS[3::-1]))
            core.set_fuel(30000, 30000)
            core.arm(5)
            try:
                node = core.ckl.parser.parse_script(src, "d")
                o = core.outcome_raw(lambda: node.evaluate(e))
            except BaseException:
                o = ("syn",)
            finally:
                core.disarm()
                core.set_fuel(10 ** 12, 10 ** 12)
            if o[0] == "value":
                calls["call:" + src] = src
    return calls


# ---- real hash seeds in fresh processes -------------------------------------
CHILD = r'''
import json, sys, io
sys.path.insert(0, sys.argv[1])
sys.path.insert(0, sys.argv[2])
from mc import core
core.install_fuel()
progs = json.load(open(sys.argv[3]))
s = core.Session(secure=True, legacy=True)
out = {}
for name, src in progs.items():
    s.reset()
    o = s.run(src, "p", fuel=50000)
    out[name] = [list(o), s.stdout()]
json.dump(out, open(sys.argv[4], "w"))
'''


def literal(v):
    return repr(core.to_value(v))


def program_texts(calls, n):
    progs = {}
    for cname, order in (("fwd", lambda x: list(x)),
                         ("rev", lambda x: list(reversed(x)))):
        for pool, tag in ((STRS[:n], ""), (MIXED[:n], "x"),
                          (INTS[:n], "i"), (PATS[:n], "p"), (ODD[:n], "o")):
            els = order(pool)
            sset = "<< " + ", ".join(literal(e) for e in els) + " >>"
            tel = list(pool[:-1]) + ["e"]
            tset = "<< " + ", ".join(literal(e) for e in order(tel)) \
                + " >>"
            mmap = "<<< " + ", ".join(
                literal(e) + " => " + str(rank(e))
                for e in els) + " >>>"
            m2 = "<<< " + ", ".join(
                literal(e) + " => " + str(rank(e))
                for e in reversed(els)) + " >>>"
            head = (PRELUDE + f" def s = {sset}; def t = {tset}; "
                    f"def m = {mmap}; def m2 = {m2}; ")
            for k, v in PATHS.items():
                progs[f"s{tag}:{k}"] = progs.get(f"s{tag}:{k}", {})
                progs[f"s{tag}:{k}"][cname] = head + v
            for k, v in MAP_PATHS.items():
                progs[f"m{tag}:{k}"] = progs.get(f"m{tag}:{k}", {})
                progs[f"m{tag}:{k}"][cname] = head + v
            if tag == "":
                for k, v in calls.items():
                    progs[k] = progs.get(k, {})
                    progs[k][cname] = head + v
    flat = {}
    for k, d in progs.items():
        for c, src in d.items():
            flat[k + "|" + c] = src
    # objects that print alike and differ in what is not printed (members
    # with a leading underscore, a _str_ member that shows one field only):
    # unequal values never tie in the enumeration order
    defs = ("def a = <*v = 1, _h = 'x'*>; def b = <*v = 1, _h = 'y'*>; "
            "def c = <*v = 1, _h = 'z'*>; def d = <*v = 1, _h = 'apple'*>; "
            "def sf = fn(self) 'P' + self->k; "
            "def p = <*_str_ = sf, k = 1, w = 'pear'*>; "
            "def q = <*_str_ = sf, k = 1, w = 'fig'*>; "
            "def r = <*_str_ = sf, k = 1, w = 'kiwi'*>; ")
    for pname, order1, order2, read in (
            ("hidden", "a, b, c, d", "d, c, b, a", "o->_h"),
            ("str-member", "p, q, r", "r, q, p", "o->w")):
        for vname, body in (
                ("set-for", "do def out = []; for o in <<{O}>> do "
                            "append(out, {R}); end; out end"),
                ("set-lc", "[{R} for o in <<{O}>>]"),
                ("map-keys", "[{R} for o in keys <<<{M}>>>]"),
                ("sorted", "[{R} for o in sorted([{O}])]")):
            for cname, order in (("fwd", order1), ("rev", order2)):
                m = ", ".join("identity(%s) => 1" % x.strip()
                              for x in order.split(","))
                flat[f"obj:{pname}:{vname}|{cname}"] = defs + body.replace(
                    "{O}", order).replace("{M}", m).replace("{R}", read)
    # renderings of syntax trees: every construct of the corpus parsed and
    # turned into text (a node that falls back to the host's default
    # rendering shows a memory address, which differs from process to
    # process)
    from mc.gen.corpus import BASE_PROGRAMS, EVAL_PROGRAMS
    for i, text in enumerate(BASE_PROGRAMS + EVAL_PROGRAMS):
        src = "string(parse(" + literal(text) + "))"
        flat[f"node:{i}|fwd"] = src
        flat[f"node:{i}|rev"] = src
        src = "string(body(fn() do " + text + "; end))"
        flat[f"body:{i}|fwd"] = src
        flat[f"body:{i}|rev"] = src
    return flat


def real_seed_runs(progs, seeds, agg):
    scratch = os.path.join(core.SCRATCH_HOME, "c12")
    os.makedirs(scratch, exist_ok=True)
    pf = os.path.join(scratch, "progs.json")
    with open(pf, "w") as f:
        json.dump(progs, f)
    child = os.path.join(scratch, "child.py")
    with open(child, "w") as f:
        f.write(CHILD)
    procs = []
    for seed in seeds:
        out = os.path.join(scratch, f"out{seed}.json")
        env = dict(os.environ, PYTHONHASHSEED=str(seed))
        procs.append((seed, out, subprocess.Popen(
            [sys.executable, child, core.SRC, core.VERIF, pf, out],
            env=env, stdout=subprocess.PIPE, stderr=subprocess.PIPE)))
    results = {}
    for seed, out, p in procs:
        so, se = p.communicate()
        if p.returncode != 0:
            core.harness_error("seed subprocess failed: " + se.decode()[-600:])
        results[seed] = json.load(open(out))
    for name in progs:
        base = name.split("|")[0]
        outs = {}
        for seed in seeds:
            for variant in ("fwd", "rev"):
                key = json.dumps(results[seed][base + "|" + variant])
                outs.setdefault(key, []).append((seed, variant))
        agg.count("real_seed_runs", len(seeds))
        if name.endswith("|fwd") and any(" object at 0x" in k for k in outs):
            k = [x for x in outs if " object at 0x" in x][0]
            agg.violation(
                {"path": base.split(":")[0], "host_address": True},
                {"kind": "real", "name": base, "src": progs[name],
                 "src_rev": progs[base + "|rev"], "nseeds": 2,
                 "address": True}, "a rendering that depends on the value "
                "only", k[:300], size=len(progs[name]))
        if len(outs) > 1 and name.endswith("|fwd"):
            keys = sorted(outs)
            agg.violation(
                {"path": base, "real_seeds": True},
                {"kind": "real", "name": base,
                 "src": progs[name], "src_rev": progs[base + "|rev"],
                 "nseeds": len(seeds),
                 "seeds": [outs[k][:2] for k in keys]},
                keys[0][:300], [k[:300] for k in keys[1:3]],
                size=len(base))


def replay(case, verbose=False):
    if case["kind"] == "real":
        a = core.Agg()
        progs = {case["name"] + "|fwd": case["src"],
                 case["name"] + "|rev": case.get("src_rev", case["src"])}
        real_seed_runs(progs, list(range(1, case.get("nseeds", 8) + 1)), a)
        if verbose:
            for k, (sz, v) in a.viol.items():
                print(v)
        return bool(a.viol)
    calls = discover_calls() if case["kind"] == "call" else {}
    a = explore({"paths": [(case["kind"], case["name"])], "n": case["n"],
                 "calls": calls})
    if verbose:
        for k, (sz, v) in a.viol.items():
            print(v)
    return bool(a.viol)


def main(tier, seed):
    t0 = time.time()
    ok, why = check_seam()
    if not ok:
        core.harness_error(f"hash seam does not control iteration order: "
                           f"{why}")
    n = 4
    calls = discover_calls()
    paths = [("s", k) for k in PATHS] + [("sx", k) for k in PATHS] + \
            [("m", k) for k in MAP_PATHS] + [("mx", k) for k in MAP_PATHS] + \
            [("si", k) for k in PATHS] + [("mi", k) for k in MAP_PATHS] + \
            [("sp", k) for k in PATHS] + [("mp", k) for k in MAP_PATHS] + \
            [("so", k) for k in PATHS] + [("mo", k) for k in MAP_PATHS] + \
            [("call", k) for k in calls]
    agg = core.pmap(explore, [{"paths": c, "n": n, "calls": calls}
                              for c in core.chunked(paths, core.NPROC * 4)])
    if tier == "thorough":
        big = [("s", k) for k in PATHS] + [("m", k) for k in MAP_PATHS]
        agg.merge(core.pmap(explore, [{"paths": [p], "n": 5, "calls": {}}
                                      for p in big]))
    agg.n["discovered_library_paths"] = len(calls)
    seeds = list(range(1, 9 if tier == "quick" else 33))
    real_seed_runs(program_texts(calls, n), seeds, agg)
    core.finish(
        PID, tier, seed, agg, t0,
        rule=(f"{len(paths)} programs ({len(PATHS)} set paths and "
              f"{len(MAP_PATHS)} map paths x {{strings, mixed scalars, ints, patterns "
              f"next to strings, NULL/booleans/list next to ints}}, "
              f"{len(calls)} library calls discovered at run time) x every "
              f"permutation of the owned hash values of the program's "
              f"strings x every insertion order of {n} elements (thorough: 5 "
              f"elements for the explicit paths); plus every "
              f"program in fresh processes under {len(seeds)} real "
              f"PYTHONHASHSEED values x 2 literal orders; a class is (kind, "
              f"path, number of distinct outcomes)"),
        exhaustive=True,
        assumptions=["ints/decimals/booleans hash independently of the seed "
                     "in the host", "programs do not use the wall clock or "
                     "unseeded random numbers",
                     "member order of objects built by hand is definition "
                     "order by design"],
        replay_fn=replay,
        states_key="cases", transitions_key="steps",
    )
