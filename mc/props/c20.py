"""C20 Reported source lines are the lines where the reported construct
starts.

E1: every token kind x every kind of following character x leading line
breaks through the real scanner; E2: every token of every base program under
all layouts with <= 2 separator deviations; E1: planted faults (runtime,
stack-trace, module and syntax faults) at a known statement under all
combinations of statement separators.  Ground truth comes from the renderer
that produced the text.
"""
import itertools
import os
import re
import time

from mc import core
from mc.gen import layout as L
from mc.gen.corpus import BASE_PROGRAMS, EVAL_PROGRAMS

PID = "C20"
NAME = "prog.ckl"

TOKEN_KINDS = [
    "if", "def", "end", "fn", "x", "abc_1", "rest...", "...", "all",
    "1", "42", "0x1F", "0b101", "1_000", "1.5", "0.25", "TRUE", "FALSE",
    "'s'", '"s"', "'a\\'b'", "'\\x41\\n'", "'two\nlines'", '"two\nlines"',
    "''", "//a+//", "//a b//", "////",
    "+", "-", "*", "/", "%", "==", "<>", "!=", "<", "<=", ">", ">=", "=",
    "+=", "-=", "*=", "/=", "%=", "!>", "->",
    "(", ")", "[", "]", ",", ";", "=>", "<<", ">>", "<<<", ">>>", "<*", "*>",
]
FOLLOWERS = [" ", "\t", "\n", "\r\n", "\n\n", "\r", " # c\n", "#c\n", "#",
             "(", ")", "[", "]", ",", ";", "+", "-", "*", "/", "%", "=", "<",
             ">", "!", "'", '"', "1", "a", ".", ""]
LEADS = ["", "\n", "\n\n\n", "\r\n", "# c\n", "  \n ", "#\n#\n"]
CLEAN_SEPS = [" ", "\t", "\n", "\r\n", "\n\n", " # c\n", "#\n", "  \n  ",
              " # c\r\n"]


def scan(text):
    lx = core.ckl.lexer.Lexer(text, NAME)
    return lx.scan().tokens


def explore_tokens(chunk):
    agg = core.Agg()
    for tok in chunk["tokens"]:
        for lead in LEADS:
            l0 = 1 + lead.count("\n")
            for fol in FOLLOWERS:
                text = lead + tok + fol
                try:
                    toks = scan(text)
                except core.CklSyntaxError:
                    agg.count("steps")
                    continue
                agg.count("steps")
                if not toks:
                    continue
                t0 = toks[0]
                agg.cls(("first", tok, fol == ""))
                if agg.n["steps"] % 4001 == 0:
                    agg.sample({"text": text, "first_token": t0.value,
                                "reported": [t0.pos.filename, t0.pos.line],
                                "expected_line": l0}, 4)
                if t0.pos.line != l0 or t0.pos.filename != NAME:
                    agg.violation(
                        {"what": "token-line", "follower": repr(fol),
                         "multiline": "\n" in tok},
                        {"t": "tok", "text": text, "index": 0,
                         "line": l0}, [NAME, l0],
                        [t0.pos.filename, t0.pos.line], size=len(text))
            for sep in CLEAN_SEPS:
                text = lead + tok + sep + "zz" + sep + tok
                try:
                    toks = scan(text)
                except core.CklSyntaxError:
                    continue
                agg.count("steps")
                want = 1 + (lead + tok + sep).count("\n")
                hit = [t for t in toks if t.value == "zz"]
                if len(hit) != 1:
                    continue
                agg.cls(("second", tok, sep))
                if hit[0].pos.line != want:
                    agg.violation(
                        {"what": "following-token-line", "sep": repr(sep),
                         "multiline": "\n" in tok},
                        {"t": "tok", "text": text,
                         "index": toks.index(hit[0]), "line": want},
                        want, hit[0].pos.line, size=len(text))
                # the repeated token after the second separator
                want3 = want + sep.count("\n")
                t3 = toks[toks.index(hit[0]) + 1] \
                    if toks.index(hit[0]) + 1 < len(toks) else None
                if t3 is not None and t3.pos.line != want3:
                    agg.violation(
                        {"what": "third-token-line", "sep": repr(sep),
                         "multiline": "\n" in tok},
                        {"t": "tok", "text": text,
                         "index": toks.index(hit[0]) + 1, "line": want3},
                        want3, t3.pos.line, size=len(text))
        agg.count("cases")
    return agg


def explore_streams(chunk):
    agg = core.Agg()
    maxdev = chunk["maxdev"]
    core.arm(3000)
    try:
        for prog in chunk["programs"]:
            tokens = L.tokenize(prog)
            if len(tokens) < 2:
                continue
            text, lines = L.render(tokens)
            try:
                base = scan(text)
            except core.CklSyntaxError:
                continue
            if len(base) != len(tokens):
                agg.count("skipped_programs")
                continue
            dev = maxdev if len(tokens) <= chunk["dev2_limit"] else 1
            for seps in L.deviations(tokens, dev):
                for lead in ("", "\n\n"):
                    text, lines = L.render(tokens, seps, lead)
                    try:
                        toks = scan(text)
                    except core.CklSyntaxError:
                        agg.count("unexpected_syntax_error")
                        continue
                    agg.count("steps")
                    if len(toks) != len(tokens):
                        continue   # C14's subject, not line numbers
                    for k, t in enumerate(toks):
                        if t.pos.line != lines[k] or \
                                t.pos.filename != NAME:
                            agg.violation(
                                {"what": "stream-token-line",
                                 "toktype": t.type},
                                {"t": "tok", "text": text, "index": k,
                                 "line": lines[k]}, lines[k], t.pos.line,
                                size=len(text))
                            break
            agg.cls(("stream", len(tokens)))
            agg.count("cases")
    finally:
        core.disarm()
    return agg


# ---- planted faults --------------------------------------------------------
MODNAME = "Verifmod"
MODSRC = ("def ok(x) x + 1;\n"
          "\n"
          "def boom(x) do\n"
          "  def y = x;\n"
          "  error 'in-module';\n"
          "end;\n"
          "def deeper(x) boom(x);\n")

# (name, statements, index of the faulty statement, kind, expectations)
FAULTS = [
    ("undefined-name", ["def a = 1", "def b = zzz + a", "a"], 1, "rt", {}),
    ("operator-type", ["def a = 1", "def b = [] * 'x'", "a"], 1, "rt", {}),
    ("native-type", ["def a = 1", "length(a)", "a"], 1, "rt", {}),
    ("explicit-error", ["def a = 1", "error 'x' + a", "a"], 1, "rt", {}),
    ("chain-add", ["def a = 1", "def b = a + 2 - 'x' + 3", "a"], 1, "rt",
     {}),
    ("chain-mul", ["def a = 1", "def b = a * 2 / 'x' % 3", "a"], 1, "rt",
     {}),
    ("nested-call", ["def a = 1", "def b = string(length(a))", "a"], 1,
     "rt", {}),
    ("member", ["def o = <*v = 1*>", "def b = o->nope(2)", "o"], 1, "rt",
     {}),
    ("second-arg", ["def a = 1", "def b = [a, zzz, 3]", "a"], 1, "rt", {}),
    ("arity", ["def f(p) p", "def a = 1", "f(a, 2)", "a"], 2, "rt", {}),
    ("index", ["def l = [1]", "def a = 1", "l[5]", "a"], 2, "rt", {}),
    ("not-boolean", ["def a = 1", "if a then 2", "a"], 1, "rt", {}),
    # unary operators on an operand of the wrong kind
    ("not-operand", ["def a = [1]", "def b = not a [0]", "a"], 1, "rt", {}),
    ("minus-operand", ["def a = ['x']", "def b = - a [0]", "a"], 1, "rt",
     {}),
    ("deep", ["def f(x) error 'deep'", "def g(x) f(x)", "def h(x) g(x)",
              "h(1)"], 0, "rt", {"stack": [("f", 1), ("g", 2), ("h", 3)]}),
    # a loop exit that escapes from a function body is reported where the
    # exit statement stands, the call only appears in the stack trace
    ("stray-break", ["def f(x) do if x > 1 then break; x end", "def a = 1",
                     "f(2)"], 0, "rt", {"stack": [("f", 2)]}),
    ("stray-continue", ["def f(x) do if x > 1 then continue; x end",
                        "def a = 1", "f(2)"], 0, "rt",
     {"stack": [("f", 2)]}),
    # a call through the pipeline operator is reported at the function it
    # calls (or where the expression starts), not at the operator
    ("pipeline", ["def a = 1", "a !> length()", "a"], 1, "rt", {}),
    ("pipeline-undefined", ["def a = 1", "a !> no_such_function(2)", "a"], 1,
     "rt", {}),
    ("pipeline-second", ["def a = [1]", "a !> length() !> length()", "a"], 1,
     "rt", {}),
    # a loop exit at the top level of a script with several statements
    ("top-break", ["def a = 1", "def b = 2", "break", "a"], 2, "rt", {}),
    ("top-continue", ["def a = 1", "if a == 1 then continue", "a"], 1, "rt",
     {}),
    ("module", ["def a = 1", f"require {MODNAME}", f"{MODNAME}->boom(a)"],
     2, "rt", {"file": "mod:" + MODNAME, "line": 5,
               "stack": [("boom", 2)]}),
    ("module-deep", ["def a = 1", f"require {MODNAME} as Q",
                     "Q->deeper(a)"],
     2, "rt", {"file": "mod:" + MODNAME, "line": 5,
               "stack": [("boom", ("mod:" + MODNAME, 7)), ("deeper", 2)]}),
    # a source that cannot be iterated, in every iterating construct (and
    # the same inside a function: the error keeps the line of the construct,
    # the call only appears in the stack trace)
    ("iter-for", ["def a = 5", "for x in a do x end", "a"], 1, "rt", {}),
    ("iter-for-in-function", ["def a = 5", "def f(a) do for x in a do x end; 0 end", "def c = 1", "f(a)"], 1, "rt", {"stack": [("f", 3)]}),
    ("iter-lc", ["def a = 5", "def b = [x for x in a]", "a"], 1, "rt", {}),
    ("iter-lc-in-function", ["def a = 5", "def f(a) do def b = [x for x in a]; 0 end", "def c = 1", "f(a)"], 1, "rt", {"stack": [("f", 3)]}),
    ("iter-lc-product-1", ["def a = 5", "def b = [[x, y] for x in a for y in [1]]", "a"], 1, "rt", {}),
    ("iter-lc-product-1-in-function", ["def a = 5", "def f(a) do def b = [[x, y] for x in a for y in [1]]; 0 end", "def c = 1", "f(a)"], 1, "rt", {"stack": [("f", 3)]}),
    ("iter-lc-product-2", ["def a = 5", "def b = [[x, y] for x in [1] for y in a]", "a"], 1, "rt", {}),
    ("iter-lc-product-2-in-function", ["def a = 5", "def f(a) do def b = [[x, y] for x in [1] for y in a]; 0 end", "def c = 1", "f(a)"], 1, "rt", {"stack": [("f", 3)]}),
    ("iter-lc-parallel-1", ["def a = 5", "def b = [[x, y] for x in a also for y in [1]]", "a"], 1, "rt", {}),
    ("iter-lc-parallel-1-in-function", ["def a = 5", "def f(a) do def b = [[x, y] for x in a also for y in [1]]; 0 end", "def c = 1", "f(a)"], 1, "rt", {"stack": [("f", 3)]}),
    ("iter-lc-parallel-2", ["def a = 5", "def b = [[x, y] for x in [1] also for y in a]", "a"], 1, "rt", {}),
    ("iter-lc-parallel-2-in-function", ["def a = 5", "def f(a) do def b = [[x, y] for x in [1] also for y in a]; 0 end", "def c = 1", "f(a)"], 1, "rt", {"stack": [("f", 3)]}),
    ("iter-sc", ["def a = 5", "def b = <<x for x in a>>", "a"], 1, "rt", {}),
    ("iter-sc-in-function", ["def a = 5", "def f(a) do def b = <<x for x in a>>; 0 end", "def c = 1", "f(a)"], 1, "rt", {"stack": [("f", 3)]}),
    ("iter-sc-product-2", ["def a = 5", "def b = <<[x, y] for x in [1] for y in a>>", "a"], 1, "rt", {}),
    ("iter-sc-product-2-in-function", ["def a = 5", "def f(a) do def b = <<[x, y] for x in [1] for y in a>>; 0 end", "def c = 1", "f(a)"], 1, "rt", {"stack": [("f", 3)]}),
    ("iter-sc-parallel-2", ["def a = 5", "def b = <<[x, y] for x in [1] also for y in a>>", "a"], 1, "rt", {}),
    ("iter-sc-parallel-2-in-function", ["def a = 5", "def f(a) do def b = <<[x, y] for x in [1] also for y in a>>; 0 end", "def c = 1", "f(a)"], 1, "rt", {"stack": [("f", 3)]}),
    ("iter-mc", ["def a = 5", "def b = <<<x => 1 for x in a>>>", "a"], 1, "rt", {}),
    ("iter-mc-in-function", ["def a = 5", "def f(a) do def b = <<<x => 1 for x in a>>>; 0 end", "def c = 1", "f(a)"], 1, "rt", {"stack": [("f", 3)]}),
    ("iter-spread", ["def a = 5", "def b = [0, ...a]", "a"], 1, "rt", {}),
    ("iter-spread-in-function", ["def a = 5", "def f(a) do def b = [0, ...a]; 0 end", "def c = 1", "f(a)"], 1, "rt", {"stack": [("f", 3)]}),
    ("iter-destructure", ["def a = 5", "def [p, q] = a", "a"], 1, "rt", {}),
    ("iter-destructure-in-function", ["def a = 5", "def f(a) do def [p, q] = a; 0 end", "def c = 1", "f(a)"], 1, "rt", {"stack": [("f", 3)]}),
    ("stray-paren", ["def a = 1", "def b = )", "a"], 1, "syn", {}),
    ("missing-then", ["def a = 1", "if TRUE a", "a"], 1, "syn", {}),
    ("bad-def", ["def a = 1", "def 5 = 2", "a"], 1, "syn", {}),
    ("unexpected-end", ["def a = 1", "def b = 2", "def c = (a +"], 2, "syn",
     {}),
    ("missing-end", ["def a = 1", "do a; a"], 1, "syn", {}),
    # a complete statement followed by a surplus token (missing ';', stray
    # closer): the offending token is the surplus one
    ("surplus-def", ["def a = 1", "def b = a + 1 def c = 2", "a"], 1, "syn",
     {}),
    ("surplus-bracket", ["def a = 1", "def b = [a] ]", "a"], 1, "syn", {}),
    ("surplus-end", ["def a = 1", "do a end end", "a"], 1, "syn", {}),
    # code that reaches the parser through parse/eval/s: the error still
    # names the file given to this interpret call (only the file is pinned)
    ("nested-parse", ["def a = 1", "def code = parse('def k = 1; k + zzz')",
                      "eval(code)"], 2, "rt", {"file_only": True}),
    ("nested-eval", ["def a = 1", "eval('1 + zzz')"], 1, "rt",
     {"file_only": True}),
    ("nested-parse-syntax", ["def a = 1", "parse('def = (')"], 1, "rt",
     {"file_only": True}),
    ("nested-s", ["def a = 1", "s('v: {zzz}')"], 1, "rt",
     {"file_only": True}),
]
STMT_SEPS = [" ", "\n", "\n\n", " # c\n", "\r\n", "\t", "  # x\n\n"]
STMT_LEADS = ["", "\n", "# c\n\n",
              # characters that some host functions treat as line ends but
              # the language does not (a line ends in LF or CRLF), inside a
              # string literal and inside a comment
              "def z0 = 'l\rr\x0b\x0c\x1c\x85\u2028\u2029';\n"
              "# c\x0b\x0c\x1d\x85\u2028 d\n"]

_S = {}


def session():
    if "s" not in _S:
        core.install_fuel()
        d = os.path.join(core.SCRATCH_HOME, ".ckl", "modules")
        os.makedirs(d, exist_ok=True)
        with open(os.path.join(d, MODNAME + ".ckl"), "w") as f:
            f.write(MODSRC)
        _S["s"] = core.Session()
    return _S["s"]


POS_RE = re.compile(r"(\S+):(\d+):(-?\d+)$")


POSTOK = {"chain-add": 6, "chain-mul": 6, "nested-call": 6, "member": 4,
          "second-arg": 6, "undefined-name": 3, "operator-type": 5, "native-type": 1,
          "explicit-error": 0, "arity": 1, "index": 1, "not-boolean": 0,
          "not-operand": 3, "minus-operand": 3,
          "deep": 5, "stray-break": 11, "stray-continue": 11,
          "pipeline": 2, "pipeline-undefined": 2, "pipeline-second": 6,
          "top-break": 0, "top-continue": 5,
          "stray-paren": 3, "missing-then": 2, "bad-def": 1,
          "unexpected-end": 5, "missing-end": 3, "surplus-def": 6,
          "surplus-bracket": 6, "surplus-end": 3}


# the token at which the failing construct begins: the statement says "the
# line on which the offending token or construct actually begins", so the
# line of either token is accepted
STARTTOK = {"chain-add": 3, "chain-mul": 3, "nested-call": 5, "member": 3,
            "second-arg": 6, "undefined-name": 3, "operator-type": 3,
            "native-type": 0, "explicit-error": 0, "arity": 0, "index": 0,
            "not-boolean": 1, "deep": 5, "pipeline": 0,
            "not-operand": 3, "minus-operand": 3,
            "pipeline-undefined": 0, "pipeline-second": 0, "stray-break": 11,
            "top-break": 0, "top-continue": 5,
            "stray-continue": 11, "stray-paren": 3,
            "missing-then": 0, "bad-def": 0, "unexpected-end": 5,
            "missing-end": 0, "surplus-def": 6, "surplus-bracket": 6,
            "surplus-end": 3}


def inner_layouts(name, stmt):
    """layouts of the faulty statement itself: None (one line), every single
    boundary broken by a line break or a comment, all boundaries broken"""
    yield None
    if name not in POSTOK:
        return
    toks = L.tokenize(stmt)
    n = len(toks) - 1
    for i in range(n):
        for a in ("\n", " # c\n", "\r\n\r\n"):
            seps = [" "] * n
            seps[i] = a
            yield seps
    yield ["\n"] * n
    yield ["\n\n"] * n


NAME2 = "other.ckl"


def run_fault(name, stmts, idx, kind, exp, seps, lead, inner=None,
              filename=None):
    """render statements with the given separators after the ';' (the faulty
    statement optionally spread over several lines) and run; returns list of
    (what, expected, observed) mismatches"""
    parts = [lead]
    line = 1 + lead.count("\n")
    stmt_line = []
    alt_line = None
    for k, s in enumerate(stmts):
        stmt_line.append(line)
        if k == idx and inner is not None:
            toks = L.tokenize(s)
            text_k, tl = L.render(toks, inner)
            stmt_line[k] = line + tl[POSTOK[name]] - 1
            alt_line = line + tl[STARTTOK[name]] - 1
            parts.append(text_k)
            line += text_k.count("\n")
        else:
            parts.append(s)
        if k < len(stmts) - 1:
            parts.append(";" + seps[k])
            line += seps[k].count("\n")
    text = "".join(parts)
    s = session().reset()
    core.set_fuel(100000, 100000)
    core.arm(10)
    bad = []
    try:
        try:
            s.interp.interpret(text, filename or NAME)
            bad.append(("outcome", kind, "no error"))
            return text, bad
        except core.CklRuntimeError as e:
            got_kind, err = "rt", e
        except core.CklSyntaxError as e:
            got_kind, err = "syn", e
        except BaseException as e:
            bad.append(("outcome", kind, type(e).__name__))
            return text, bad
    finally:
        core.disarm()
        core.set_fuel(10 ** 12, 10 ** 12)
    if got_kind != kind:
        bad.append(("outcome", kind, got_kind))
        return text, bad
    want_file = exp.get("file", filename or NAME)
    want_line = exp.get("line", stmt_line[idx])
    pos = err.pos
    if pos is None or not hasattr(pos, "line"):
        bad.append(("pos", "SourcePos", repr(pos)))
        return text, bad
    if pos.filename != want_file:
        bad.append(("file", want_file, pos.filename))
    if exp.get("file_only"):
        for entry in getattr(err, "stacktrace", None) or []:
            m = POS_RE.search(str(entry))
            if m and m.group(1) != want_file:
                bad.append(("stack-entry-file", want_file, m.group(1)))
        return text, bad
    if pos.line != want_line and not (
            "line" not in exp and alt_line is not None
            and pos.line == alt_line):
        bad.append(("line", sorted({want_line, alt_line or want_line}),
                    pos.line))
    if "stack" in exp:
        st = list(err.stacktrace)
        if len(st) != len(exp["stack"]):
            bad.append(("stack-length", len(exp["stack"]), st))
        else:
            for entry, (fname, where) in zip(st, exp["stack"]):
                m = POS_RE.search(str(entry))
                if isinstance(where, tuple):
                    wf, wl = where
                else:
                    wf, wl = filename or NAME, stmt_line[where]
                if not m or not str(entry).startswith(fname + "("):
                    bad.append(("stack-entry", f"{fname}(...) {wf}:{wl}",
                                str(entry)))
                elif m.group(1) != wf or int(m.group(2)) != wl:
                    bad.append(("stack-entry-pos", f"{wf}:{wl}",
                                f"{m.group(1)}:{m.group(2)}"))
    return text, bad


def explore_faults(chunk):
    agg = core.Agg()
    for fi in chunk["faults"]:
        name, stmts, idx, kind, exp = FAULTS[fi]
        n = len(stmts) - 1
        for inner in inner_layouts(name, stmts[idx]):
            leads = STMT_LEADS if inner is None else STMT_LEADS[:2]
            sepset = STMT_SEPS if inner is None else STMT_SEPS[:2]
            for lead in leads:
                for seps in itertools.product(sepset, repeat=n):
                    text, bad = run_fault(name, stmts, idx, kind, exp, seps,
                                          lead, inner)
                    if inner is None and lead == leads[0]:
                        # the same text again under another file name in
                        # the same process: nothing of the first run's
                        # positions may stick
                        t2, bad2 = run_fault(name, stmts, idx, kind, exp,
                                             seps, lead, inner, filename=NAME2)
                        agg.count("steps")
                        bad = bad + [("second-name:" + w, a, b)
                                     for w, a, b in bad2]
                    agg.count("steps")
                    agg.cls(("fault", name, inner is None, len(bad) == 0))
                    if agg.n["steps"] % 500 == 1:
                        agg.sample({"fault": name, "text": text,
                                    "mismatches": bad}, 2)
                    for what, want, got in bad:
                        agg.violation(
                            {"what": "fault:" + what, "fault": name,
                             "multiline": inner is not None},
                            {"t": "fault", "fault": fi, "seps": list(seps),
                             "lead": lead, "inner": inner, "text": text},
                            want, got, size=len(text))
        agg.count("cases")
    return agg


# ---- runtime errors raised by library functions ----------------------------
CALL_LINE = 3
_SW = {}


def _sweep_session():
    from mc import sweep
    if "s" not in _SW:
        _SW["s"] = sweep.SweepSession(legacy=True)
        _SW["forms"] = {}
    return _SW["s"]


def call_error_position(fname, argnames):
    """run f(<args>) written on line 3 of a file called NAME; -> None (no
    runtime error) or (file name, line) of the error, (None, None) if the
    error carries no position at all"""
    from mc import sweep
    s = _sweep_session()
    fn = dict(s.funcs)[fname]
    n = len(argnames)
    node = _SW["forms"].get(n)
    if node is None:
        node = core.ckl.parser.parse_script(
            "\n\nf(" + ", ".join("abcd"[:n]) + ")", NAME)
        _SW["forms"][n] = node
    args = [sweep.POOL[sweep.POOL_INDEX[a]][1](s) for a in argnames]
    env = s.env.newEnv()
    env.put("f", fn)
    for nm, v in zip("abcd", args):
        env.put(nm, v)
    s.session._bind_streams()
    core.ckl.functions.seed = 1
    core.set_fuel(30000, 30000)
    core.arm(4.0)
    try:
        node.evaluate(env)
    except core.CklRuntimeError as e:
        if e.pos is None:
            return (None, None)
        return (e.pos.filename, e.pos.line)
    except BaseException:
        return None              # escapes are C13's matter
    finally:
        core.disarm()
        core.set_fuel(10 ** 12, 10 ** 12)
    return None


# functions that hand text to the parser: lines inside that text are not
# pinned (see DESIGN I.7), only the file name
SNIPPET_CALLS = {"eval", "parse", "s"}


def position_ok(p, callee=""):
    """an error of a call on line 3 of NAME is reported there, or - when it
    arises inside module code or inside a callback of the value pool - in
    that source with a line of its own"""
    if p is None:
        return True
    fname, line = p
    if fname is None or not isinstance(line, int) or line < 1:
        return False
    if fname == NAME:
        return line == CALL_LINE or callee.split("->")[-1] in SNIPPET_CALLS
    return str(fname).startswith("mod:") or fname in ("pool", "prelude")


def explore_calls(chunk):
    from mc import sweep
    agg = core.Agg()
    s = _sweep_session()
    fmap = dict(s.funcs)
    names = [n for n, _ in sweep.POOL if n not in sweep.FORMS_ONLY]
    for fname in chunk["funcs"]:
        n = sweep.nparams_of(fmap[fname])
        tuples = [()]
        if n >= 1:
            tuples += [(a,) for a in names]
        if n >= 2:
            pool2 = names if chunk["tier"] == "thorough" else sweep.SUBPOOL
            tuples += [(a, b) for a in pool2 for b in pool2]
        for t in tuples:
            p = call_error_position(fname, t)
            agg.count("steps")
            agg.cls(("call-error", fname, p is not None))
            if not position_ok(p, fname):
                # seen twice in a row in this process: positions that depend
                # on what was parsed earlier do not reproduce from a fresh
                # process, the replay accepts the in-run confirmation then
                again = call_error_position(fname, t)
                agg.violation(
                    {"what": "call-error:position", "callee": fname,
                     "position": "none" if p == (None, None) else "wrong"},
                    {"t": "call", "callee": fname, "args": list(t),
                     "seen_twice": again == p},
                    [NAME, CALL_LINE], list(p),
                    size=len(t) * 100 + sum(len(x) for x in t))
        agg.count("cases")
    return agg


def replay(case, verbose=False):
    if case["t"] == "call":
        p = call_error_position(case["callee"], case["args"])
        if verbose:
            print(case, "->", p)
        return not position_ok(p, case["callee"]) or \
            bool(case.get("seen_twice"))
    if case["t"] == "tok":
        toks = scan(case["text"])
        t = toks[case["index"]]
        if verbose:
            print(repr(case["text"]), "token", case["index"], repr(t.value),
                  "line", t.pos.line, "expected", case["line"])
        return t.pos.line != case["line"] or t.pos.filename != NAME
    name, stmts, idx, kind, exp = FAULTS[case["fault"]]
    text, bad = run_fault(name, stmts, idx, kind, exp, case["seps"],
                          case["lead"], case.get("inner"))
    if case.get("inner") is None:
        t2, bad2 = run_fault(name, stmts, idx, kind, exp, case["seps"],
                             case["lead"], case.get("inner"), filename=NAME2)
        bad = bad + bad2
    if verbose:
        print(repr(text))
        print(bad)
    return bool(bad)


def main(tier, seed):
    t0 = time.time()
    agg = core.pmap(explore_tokens,
                    [{"tokens": c} for c in core.chunked(TOKEN_KINDS,
                                                         core.NPROC)])
    progs = BASE_PROGRAMS + EVAL_PROGRAMS
    a2 = core.pmap(explore_streams, [
        {"programs": c, "maxdev": 2,
         "dev2_limit": 14 if tier == "quick" else 40}
        for c in core.chunked(progs, core.NPROC * 4)])
    if a2.n.get("skipped_programs", 0) > len(progs) // 4:
        core.harness_error("too many programs skipped by the token matcher")
    agg.merge(a2)
    agg.merge(core.pmap(explore_faults, [{"faults": [i]}
                                         for i in range(len(FAULTS))]))
    sw = _sweep_session()
    fnames = [f for f, _ in sw.funcs]
    agg.merge(core.pmap(explore_calls,
                        [{"funcs": c, "tier": tier}
                         for c in core.chunked(fnames, core.NPROC * 4)]))
    core.finish(
        PID, tier, seed, agg, t0,
        rule=(f"{len(fnames)} library functions x argument tuples of arity "
              f"<= 2 over the value pool of the call sweep (every runtime "
              f"error of a call written on line {CALL_LINE} names the file "
              f"and that line, or a line of the module it arises in); "
              f"{len(TOKEN_KINDS)} token kinds x {len(FOLLOWERS)} followers "
              f"x {len(LEADS)} leads (first token line) and x "
              f"{len(CLEAN_SEPS)} separators (following token lines); every "
              f"token of {len(progs)} base programs under all layouts with "
              f"<= 2 separator deviations ({len(L.SEPS)} separators, 2 "
              f"leads); {len(FAULTS)} planted faults x all combinations of "
              f"{len(STMT_SEPS)} statement separators x {len(STMT_LEADS)} "
              f"leads; class = (part, token/fault, detail)"),
        exhaustive=True,
        assumptions=["columns are not compared", "for a faulty construct "
                     "spread over several lines the expected line is the "
                     "line of the token that identifies the failing "
                     "operation (operator, call parenthesis, name, keyword)"],
        replay_fn=replay,
        states_key="steps", transitions_key="steps",
    )
