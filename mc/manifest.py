"""Regenerates /verif/MANIFEST.json from the property modules that exist."""
import json
import os

VERIF = os.path.dirname(os.path.dirname(os.path.abspath(__file__)))

BASELINE = ("cd /repo && /venv/bin/python -m pytest -ra -q -p no:cacheprovider "
            "--timeout=900 --continue-on-collection-errors")

META = {
    "C01": ("E1 token/char products + E2 single-edit neighbourhood of grammatical programs on parse_script",
            "bounded-exhaustive enumeration of source texts (token strings, character strings, all single-token edits and prefixes of generated programs, nesting 1..40) through the real parser; oracle: program or CklSyntaxError(msg,pos), deterministic, lexer-cursor fuel never exhausted",
            "2.C01"),
    "C02": ("E1/E3 exhaustive expression enumeration vs reference evaluator",
            "all operator pairs/triples, unary/binary combinations, expression trees up to a size bound, exact big-int arithmetic pairs and every `is [not] P` predicate form over a value pool, each run through Interpreter.interpret and compared with an independent precedence-climbing reference evaluator",
            "2.C02"),
    "C03": ("E3 bounded-exhaustive program generation vs reference evaluator",
            "all scope-shape programs (nested functions, closures, def/assign/read actions per level) and all parameter-list x argument-list shapes up to a bound, compared with an environment-passing reference evaluator",
            "2.C03"),
    "C04": ("E2/E3 exit-statement injection at every position vs reference evaluator",
            "loop nests with break/continue/return injected at every statement position (0,1,2 deviations), if/elif chains with every truth assignment, every comprehension form vs its explicit loop, compared with a reference evaluator on result and visit log",
            "2.C04"),
    "C05": ("E2/E3 error injection at every position vs reference evaluator + log invariants",
            "do/catch/finally nests with errors/returns injected at every statement position (0,1,2 deviations), compared with a reference evaluator and with finally-exactly-once / nothing-after-failure invariants on the event log",
            "2.C05"),
    "C06": ("E1 exhaustive pairs/triples/insertion orders over a value pool",
            "all ordered pairs and triples of a closed pool of data values (depth<=3) and all insertion orders of <=5 elements; equivalence laws, agreement with a reference equality, hash consistency and interchangeability in sets/maps",
            "2.C06"),
    "C07": ("E1 exhaustive pairs/triples per kind + all short lists for sorted",
            "all ordered pairs/triples per kind for the strict-total-order laws against a reference order; all lists up to length 5/7 over tagged keys for sorted (permutation, ordered, stable) with and without key/cmp",
            "2.C07"),
    "C08": ("E1 value enumeration + all insertion orders, render/parse round trip",
            "all generated data values (depth<=3, adversarial strings, decimals over all magnitudes, every insertion order of <=5 elements): rendering equals the reference rendering, is order-independent and evaluates back to an equal value of the same type with the same text",
            "2.C08"),
    "C09": ("E5 reachability over real environments/closures/modules + E1 call sweep under an owned OS seam",
            "every native name x alias x binding context, every way of defining the secure flag, BFS over all function values reachable from a secure interpreter, each invoked with every argument tuple (arity<=3) of a path/command pool under wrappers + audit hook that record any file/process access",
            "2.C09"),
    "C10": ("E4 exhaustive session-command histories (fork-snapshot trie, cross-checked with fresh replay) vs session model",
            "all sequences of session commands up to length 4/5 issued to one or two interpreters, every response compared with a reference session model (definitions + loaded modules)",
            "2.C10"),
    "C11": ("E3 all module dependency graphs x E4 importer histories",
            "all dependency digraphs on <=3 generated user modules (plus chain/diamond/cycle families on 4-5) x all importer command histories up to length 3/4; oracle on bound names, load-once markers, shared state, privacy, isolation and cycle errors",
            "2.C11"),
    "C12": ("exhaustive permutation of hash order and construction order + real hash seeds in fresh processes",
            "each program over sets/maps executed under every permutation of owned string hash values and every construction order (<=4/5 elements): exactly one observable outcome; real PYTHONHASHSEED subprocess runs must fall inside the explored outcome set",
            "2.C12"),
    "C13": ("E1 exhaustive call sweep (arity<=3) and operator/form sweep over a value pool",
            "every function of both base environments and all bundled modules x every argument tuple up to arity 3 from a ~24-value pool, and every syntactic form x pool^holes; oracle: value or catchable CklRuntimeError carrying a value, never a host exception or hang",
            "2.C13"),
    "C14": ("E2 deviation-bounded re-rendering (layout/spelling choices) of generated programs",
            "for each base program all renderings with <=2 separator/spelling deviations at token level and all 1-deviation + uniform renderings end-to-end: token stream, result, output and error value equal the default rendering's",
            "2.C14"),
    "C15": ("E1 exhaustive product: all sequences (len<=4/6, 3 symbols) x all indices vs sequence model",
            "all strings and lists up to length 6 over a 3-symbol alphabet x all integer positions in [-9,9] (plus +-2^31/2^63) x 20 forms evaluated on the real evaluator and compared with a reference sequence model",
            "2.C15"),
    "C16": ("E1 call sweep with argument snapshots + E4 alias-graph histories vs heap model",
            "every library function x argument tuples with all arguments snapshotted before/after; all operation sequences up to length 3/4 over an alias graph compared step by step with a reference heap model",
            "2.C16"),
    "C17": ("E1 exhaustive calendar enumeration vs proleptic Gregorian reference",
            "every calendar day 1900-01-01..9999-12-31 (thorough) for the conversions, stride-set arithmetic on boundary days, every second of the day on selected days; compared with datetime.toordinal reference",
            "2.C17"),
    "C18": ("E1 exhaustive string pairs/triples over an adversarial alphabet vs host-string laws",
            "all strings up to length 2 over a 20-char adversarial alphabet and up to length 4/5 over four 3-symbol alphabets, all pairs, against host-string oracles and algebraic laws; interpolation templates x formats x values",
            "2.C18"),
    "C19": ("E1 exhaustive lists/sets/ints/words vs textbook definitions",
            "all lists up to length 4 over a mixed universe, all permutations of multisets up to size 5, all subset pairs, big-int pairs up to 2^80, all 32-bit boundary words x shifts 0..40, compared with textbook definitions in Python",
            "2.C19"),
    "C20": ("E1 token x follower product + E2 layout deviations + planted faults",
            "every token kind x every following character kind x leading line breaks; every token of generated programs under <=2 layout deviations; planted faults with known line: reported file name and line equal the renderer's ground truth",
            "2.C20"),
}


def main():
    props = []
    with open(os.path.join(VERIF, "properties.jsonl")) as f:
        for line in f:
            if line.strip():
                props.append(json.loads(line))
    checks = []
    na = []
    na_reasons = {}
    p = os.path.join(VERIF, "not_applicable.json")
    if os.path.exists(p):
        na_reasons = json.load(open(p))
    for pr in props:
        pid = pr["id"]
        mod = os.path.join(VERIF, "mc", "props", pid.lower() + ".py")
        if os.path.exists(mod) and pid not in na_reasons:
            tech, text, ref = META[pid]
            checks.append({
                "property_id": pid,
                "quick_cmd": f"./check {pid} --tier quick",
                "thorough_cmd": f"./check {pid} --tier thorough",
                "evidence_file": f"/verif/evidence/{pid}.json",
                "replay_cmd_template": f"./check {pid} --replay {{path}}",
                "engine": "mc",
                "level_claimed": {
                    "category": "model_checking",
                    "text": text,
                    "design_ref": ref,
                },
                "level_note": ("bounded-exhaustive: holds for every case inside the stated bound only; "
                               "trusted base: the reference model in mc/props/" + pid.lower() + ".py (self-tested against the built-ins' documented examples where applicable), CPython, the harness"),
                "technique": "explicit-state bounded model checking of the implementation: " + tech,
            })
        else:
            na.append({"property_id": pid,
                       "reason": na_reasons.get(pid, "check not built yet in this revision (planned, see DESIGN.md section 2)")})
    manifest = {
        "version": 1,
        "setup_cmd": "/venv/bin/python -m compileall -q mc && /venv/bin/python -m mc.selftest",
        "hooks": {
            "guard": "CKL_VERIF",
            "enable": "none needed: the harness monkey-patches ckl at run time (fuel counters, owned hashes, OS seam); no source hooks exist in /repo",
            "baseline_off_cmd": BASELINE,
            "source_commits": [],
            "add_only": True,
        },
        "engines": [{
            "name": "mc",
            "path": "/verif/mc",
            "serves_properties": [c["property_id"] for c in checks],
            "kind_free_text": "hand-written explicit-state / bounded-exhaustive explorers (product, deviation-bounded, program generation vs reference evaluator, fork-snapshot history trie, reachability) driving the real interpreter",
        }],
        "checks": checks,
        "not_applicable": na,
        "notes": "All checks: ./check <ID> --tier quick|thorough; exit 0 held / 1 VIOLATION / 2 harness error. known_findings.json lists recorded and fixed defects.",
    }
    with open(os.path.join(VERIF, "MANIFEST.json"), "w") as f:
        json.dump(manifest, f, indent=1)
    print("claimed:", [c["property_id"] for c in checks])
    print("not_applicable:", [n["property_id"] for n in na])


if __name__ == "__main__":
    main()
