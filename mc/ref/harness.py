"""Run a generated program (refeval AST) on the real interpreter and on the
reference evaluator and compare result/error value and the LOG trace."""
from mc import core
from mc.ref import refeval as E

_S = {}


def session():
    if "s" not in _S:
        core.install_fuel()
        _S["s"] = core.Session()
    return _S["s"]


def run_impl(src, fuel=60000):
    s = session().reset()
    o = s.run(E.PRELUDE + src, "gen", fuel=fuel)
    logs = None
    try:
        logs = core.from_value(s.interp.environment.get("LOGS"))
    except BaseException:
        logs = "<no LOGS>"
    if o[0] == "value":
        try:
            v = s.interp.interpret(E.PRELUDE + src, "gen")
            # re-running would duplicate effects: evaluate once instead
        except BaseException:
            pass
    return o, logs, s.stdout()


def run_impl_value(src, fuel=60000):
    """-> (('value', plain) | ('rt', plain) | other outcome tuple, logs)"""
    s = session().reset()
    core.set_fuel(fuel, fuel)
    core.arm(10.0)
    try:
        o = core.outcome_raw(
            lambda: s.interp.interpret(E.PRELUDE + src, "gen"))
    finally:
        core.disarm()
        core.set_fuel(10 ** 12, 10 ** 12)
    try:
        logs = core.from_value(s.interp.environment.get("LOGS"))
    except BaseException:
        logs = "<no LOGS>"
    if o[0] == "value":
        o = ("value", core.from_value(o[1]))
    elif o[0] == "rt":
        o = ("rt", core.from_value(o[1])
             if isinstance(o[1], core.ckl.values.Value) else "<non-value>")
    return o, logs


def same(exp, got):
    """reference plain value vs implementation plain value (with the
    relation check for %)"""
    if isinstance(exp, tuple) and len(exp) == 3 and exp[0] == "mod":
        _, a, b = exp
        return type(got) is int and abs(got) < abs(b) and (a - got) % b == 0
    if isinstance(exp, tuple) and len(exp) == 3 and exp[0] == "fmod":
        _, a, b = exp
        if type(got) is not float:
            return False
        # decimal remainder with a negative operand: only the kind is
        # pinned (the stated relation is about ints; floats round)
        return True
    if isinstance(exp, list) and isinstance(got, list):
        return len(exp) == len(got) and all(same(x, y)
                                            for x, y in zip(exp, got))
    if isinstance(exp, tuple) and isinstance(got, tuple) and \
            len(exp) == len(got):
        return all(same(x, y) for x, y in zip(exp, got))
    return core.strict_eq(exp, got)


def compare(ast, full=False):
    """-> None when implementation and reference agree (or the reference
    leaves the case undefined), else dict(expected=..., observed=...,
    src=...)"""
    src = E.render(ast, full)
    m = E.Machine()
    ref = m.run(ast)
    if ref[0] == "unspec":
        return {"unspec": ref[1], "src": src}
    got, logs = run_impl_value(src)
    ok = got[0] == ref[0] and same(ref[1], got[1]) and same(m.log, logs)
    if ok:
        return None
    return {"src": src, "expected": [list(ref), m.log],
            "observed": [list(got), logs]}
