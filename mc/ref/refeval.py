"""Reference evaluator + renderer for the generated program fragment of
C02-C05 (and C14's extra programs).  Written from the property statements:
environment-passing evaluation with python exceptions for control flow
(deliberately a different mechanism from the implementation, which threads
control values through blocks).

Programs are python tuples (see the node list in `ev`); `render` turns them
into source text using only the *stated* precedence to place parentheses.

What the statements leave open evaluates to the marker UNSPEC (the case is
then not compared, only counted).
"""
import copy


UNSPEC_SEEN = [None]


class Unspec(Exception):
    """the statements do not define this behaviour; sticky: once raised in a
    run the whole run is undefined even if a handler or a finally part
    replaces the exception"""

    def __init__(self, msg=""):
        super().__init__(msg)
        UNSPEC_SEEN[0] = msg or "unspecified"


class LangError(Exception):
    def __init__(self, value):
        self.value = value


class Break(Exception):
    pass


class Continue(Exception):
    pass


class Return(Exception):
    def __init__(self, value):
        self.value = value


class RSet:
    def __init__(self, items=()):
        self.items = []
        for x in items:
            self.add(x)

    def add(self, x):
        if not any(equal(x, y) for y in self.items):
            self.items.append(x)

    def sorted(self):
        return sort_values(self.items)


class RMap:
    def __init__(self, entries=()):
        self.entries = []
        for k, v in entries:
            self.put(k, v)

    def put(self, k, v):
        for i, (j, _) in enumerate(self.entries):
            if equal(k, j):
                self.entries[i] = (j, v)
                return
        self.entries.append((k, v))

    def get(self, k):
        for j, v in self.entries:
            if equal(k, j):
                return (True, v)
        return (False, None)

    def sorted_keys(self):
        return sort_values([k for k, _ in self.entries])


class RObj:
    def __init__(self):
        self.members = {}


class Closure:
    def __init__(self, params, body, env, name="lambda"):
        self.params = params      # [(name, default|None, is_rest)]
        self.body = body
        self.env = env
        self.name = name


class Opaque:
    """a host object the programs only pass around (stdout)"""

    def __init__(self, name):
        self.name = name


class Builtin:
    """the handful of library functions generated programs use, with the
    documented meaning"""

    def __init__(self, name, fn):
        self.name = name
        self.fn = fn


def _b_append(c, x):
    if kind(c) == "list":
        c.append(x)
    elif kind(c) == "set":
        c.add(x)
    else:
        raise err()
    return c


def _b_put(m, k, v):
    if kind(m) != "map":
        raise err()
    m.put(k, v)
    return m


def _b_string(x):
    if x is None:
        return ""
    return text(x)


def _b_length(x):
    k = kind(x)
    if k in ("list", "string"):
        return len(x)
    if k == "set":
        return len(x.items)
    if k == "map":
        return len(x.entries)
    raise err()


BUILTINS = {
    "process_lines": None,
    "append": _b_append, "put": _b_put, "string": _b_string,
    "length": _b_length, "identity": lambda x: x,
}


class Env:
    def __init__(self, parent=None):
        self.vars = {}
        self.parent = parent

    def lookup(self, name):
        e = self
        while e is not None:
            if name in e.vars:
                return e
            e = e.parent
        return None


def err(msg="ERROR"):
    return LangError("ERROR")


# ---- values ---------------------------------------------------------------
def kind(v):
    if v is None:
        return "null"
    if isinstance(v, bool):
        return "boolean"
    if isinstance(v, int):
        return "int"
    if isinstance(v, float):
        return "decimal"
    if isinstance(v, str):
        return "string"
    if isinstance(v, list):
        return "list"
    if isinstance(v, RSet):
        return "set"
    if isinstance(v, RMap):
        return "map"
    if isinstance(v, RObj):
        return "object"
    if isinstance(v, (Closure, Builtin)):
        return "func"
    if isinstance(v, Opaque):
        return "opaque"
    if isinstance(v, tuple) and v and v[0] in ("mod", "fmod"):
        raise Unspec("remainder with a negative operand used as operand")
    raise TypeError(v)


def numeric(v):
    return kind(v) in ("int", "decimal")


def equal(a, b):
    ka, kb = kind(a), kind(b)
    if numeric(a) and numeric(b):
        return a == b
    if ka != kb:
        return False
    if ka == "null":
        return True
    if ka in ("boolean", "string"):
        return a == b
    if ka == "list":
        return len(a) == len(b) and all(equal(x, y) for x, y in zip(a, b))
    if ka == "set":
        return len(a.items) == len(b.items) and all(
            any(equal(x, y) for y in b.items) for x in a.items)
    if ka == "map":
        if len(a.entries) != len(b.entries):
            return False
        for k, v in a.entries:
            f, w = b.get(k)
            if not f or not equal(v, w):
                return False
        return True
    if ka in ("object", "func", "opaque"):
        return a is b
    raise TypeError(a)


def less(a, b):
    if numeric(a) and numeric(b):
        return a < b
    ka, kb = kind(a), kind(b)
    if ka != kb:
        raise Unspec("cross-kind order")
    if ka == "string":
        return [ord(c) for c in a] < [ord(c) for c in b]
    if ka == "boolean":
        return (not a) and b
    if ka == "list":
        for x, y in zip(a, b):
            if less(x, y):
                return True
            if less(y, x):
                return False
        return len(a) < len(b)
    raise Unspec("order on " + ka)


def sort_values(items):
    import functools

    def c(x, y):
        return -1 if less(x, y) else (1 if less(y, x) else 0)
    return sorted(items, key=functools.cmp_to_key(c))


def plain(v):
    """comparable plain form of a reference value (same tagging as
    core.from_value)"""
    if isinstance(v, tuple) and v and v[0] in ("mod", "fmod"):
        return v
    k = kind(v)
    if k in ("null", "boolean", "int", "decimal", "string"):
        return v
    if k == "list":
        return [plain(x) for x in v]
    if k == "set":
        return ("set", sorted((plain(x) for x in v.items), key=repr))
    if k == "map":
        return ("map", sorted(((plain(a), plain(b)) for a, b in v.entries),
                              key=repr))
    if k == "object":
        return ("obj", [(n, plain(x)) for n, x in v.members.items()])
    if k == "opaque":
        return ("other", v.name)
    return ("other", "FuncLambda")


# ---- arithmetic -------------------------------------------------------------
def arith(op, a, b):
    ka, kb = kind(a), kind(b)
    if a is None or b is None:
        if op == "-" and ka in ("list", "set"):
            raise Unspec("collection - NULL")
        if ka in ("func", "object") or kb in ("func", "object"):
            raise Unspec("NULL with func/object")
        return None
    if numeric(a) and numeric(b):
        both_int = ka == "int" and kb == "int"
        if op == "+":
            return a + b if both_int else float(a) + float(b)
        if op == "-":
            return a - b if both_int else float(a) - float(b)
        if op == "*":
            return a * b if both_int else float(a) * float(b)
        if op == "/":
            if b == 0:
                raise err()
            if both_int:
                q = abs(a) // abs(b)
                return -q if (a < 0) != (b < 0) else q
            return float(a) / float(b)
        if op == "%":
            if b == 0:
                raise err()
            if a >= 0 and b > 0:
                return a % b if both_int else float(a) % float(b)
            if both_int:
                return ("mod", a, b)      # checked by relation, see same()
            return ("fmod", float(a), float(b))
    scalar = ("int", "decimal", "boolean", "string")
    if op in ("/", "%"):
        if ka in scalar + ("list", "set", "map") and \
                kb in scalar + ("list", "set", "map"):
            raise err()          # division is defined on numbers only
        raise Unspec(op + " " + ka + " " + kb)
    if op == "+":
        if ka == "string" and kb in scalar:
            return a + text(b)
        if kb == "string" and ka in scalar:
            return text(a) + b
        if ka == "list" and kb == "list":
            return a + b
        if ka == "list" and kb in scalar:
            return a + [b]
        if kb == "list" and ka in scalar:
            return [a] + b
        if ka in ("boolean", "int", "decimal") and \
                kb in ("boolean", "int", "decimal"):
            raise err()
        raise Unspec("add " + ka + " " + kb)
    if op == "*":
        if ka == "string" and kb == "int":
            if 0 <= b <= 6:
                return a * b
            raise Unspec("string repeat count")
        if ka == "list" and kb == "int":
            if 0 <= b <= 6:
                out = []
                for _ in range(b):
                    out += a
                return out
            raise Unspec("list repeat count")
        if ka in scalar + ("list",) and kb in scalar + ("list",):
            raise err()
        raise Unspec("mul " + ka + " " + kb)
    if op == "-":
        if ka == "list" and kb == "list":
            return [x for x in a if not any(equal(x, y) for y in b)]
        if ka == "list" and kb in scalar:
            return [x for x in a if not equal(x, b)]
        if ka in scalar and kb in scalar:
            raise err()
        if ka in scalar and kb == "list":
            raise err()
        raise Unspec("sub " + ka + " " + kb)
    raise Unspec(op + " " + ka + " " + kb)


def text(v):
    k = kind(v)
    if k == "string":
        return v
    if k == "boolean":
        return "TRUE" if v else "FALSE"
    if k == "decimal":
        r = repr(v)
        if "e" in r or "inf" in r or "nan" in r:
            raise Unspec("decimal text")
        return r if "." in r else r + ".0"
    if k == "int":
        return str(v)
    raise Unspec("text of " + k)


PREDS = {
    "string": lambda v: kind(v) == "string",
    "int": lambda v: kind(v) == "int",
    "decimal": lambda v: kind(v) == "decimal",
    "boolean": lambda v: kind(v) == "boolean",
    "list": lambda v: kind(v) == "list",
    "set": lambda v: kind(v) == "set",
    "map": lambda v: kind(v) == "map",
    "object": lambda v: kind(v) == "object",
    "func": lambda v: kind(v) == "func",
}


def pred(name, v):
    if name in PREDS:
        return PREDS[name](v)
    if name == "empty":
        if v is None:
            return True
        if numeric(v):
            return False
        if kind(v) == "string":
            return v == ""
        if kind(v) == "list":
            return len(v) == 0
        if kind(v) == "set":
            return len(v.items) == 0
        if kind(v) == "map":
            return len(v.entries) == 0
        raise Unspec("empty")
    raise Unspec("pred " + name)


# ---- evaluation -------------------------------------------------------------
class Machine:
    def __init__(self, fuel=20000):
        self.log = []
        self.out = []
        self.fuel = fuel
        self.glob = Env()
        for name, fn in BUILTINS.items():
            self.glob.vars[name] = Builtin(name, fn)
        self.glob.vars["stdout"] = Opaque("ValueOutput")

    def tick(self):
        self.fuel -= 1
        if self.fuel < 0:
            raise Unspec("reference fuel")

    def run(self, prog):
        """-> ('value', plain) | ('rt', plain error value) | ('unspec', why)
        with the log in self.log"""
        UNSPEC_SEEN[0] = None
        r = self._run(prog)
        if UNSPEC_SEEN[0] is not None:
            return ("unspec", UNSPEC_SEEN[0])
        return r

    def _run(self, prog):
        try:
            try:
                v = self.ev(prog, self.glob)
            except Return as r:
                v = r.value
            except (Break, Continue):
                raise err()
            return ("value", plain(v))
        except LangError as e:
            return ("rt", plain(e.value))
        except Unspec as u:
            return ("unspec", str(u))
        except RecursionError:
            return ("unspec", "reference recursion")

    # -- helpers
    def truth(self, v):
        if kind(v) != "boolean":
            raise err()
        return v

    def bind_args(self, fn, args, env):
        """args: list of (name|None, value) already evaluated/expanded"""
        params = [p for p in fn.params if not p[2]]
        rest = [p for p in fn.params if p[2]]
        names = [p[0] for p in params]
        bound = {}
        for nm, v in args:
            if nm is not None:
                if nm not in names:
                    raise err()
                bound[nm] = v
        restvals = []
        seen_named = False
        for nm, v in args:
            if nm is None:
                if seen_named:
                    raise err()
                free = [n for n in names if n not in bound]
                if not free:
                    if not rest:
                        raise err()
                    restvals.append(v)
                else:
                    bound[free[0]] = v
            else:
                seen_named = True
        call = Env(fn.env)
        for (n, default, _) in fn.params:
            if _:
                call.vars[n] = restvals
            elif n in bound:
                call.vars[n] = bound[n]
            elif default is not None:
                call.vars[n] = self.ev(default, call)
            else:
                raise err()
        return call

    def call(self, fn, args):
        self.tick()
        if isinstance(fn, Builtin):
            if any(nm is not None for nm, _ in args):
                raise Unspec("named argument to a library function")
            if fn.name == "process_lines":
                # process_lines(lines, callback): the callback is called once
                # per line, in order; whatever it raises propagates
                if len(args) != 2 or kind(args[0][1]) != "list":
                    raise Unspec("process_lines operands")
                for line in list(args[0][1]):
                    self.call(args[1][1], [(None, line)])
                return len(args[0][1])
            try:
                return fn.fn(*[v for _, v in args])
            except TypeError:
                raise err()
        if not isinstance(fn, Closure):
            raise err()
        call = self.bind_args(fn, args, None)
        try:
            return self.ev(fn.body, call)
        except Return as r:
            return r.value
        except (Break, Continue):
            raise err()

    def eval_args(self, arglist, env):
        out = []
        for a in arglist:
            if a[0] == "pos":
                out.append((None, self.ev(a[1], env)))
            elif a[0] == "named":
                out.append((a[1], self.ev(a[2], env)))
            else:
                v = self.ev(a[1], env)
                k = kind(v)
                if k == "list":
                    out += [(None, x) for x in v]
                elif k == "set":
                    out += [(None, x) for x in v.sorted()]
                elif k == "map":
                    for key in v.sorted_keys():
                        out.append((key if kind(key) == "string" else None,
                                    v.get(key)[1]))
                else:
                    raise err()
        return out

    def iterate(self, v, what):
        k = kind(v)
        if k == "list":
            return list(v)
        if k == "set":
            return v.sorted()
        if k == "string":
            return list(v)
        if k == "map":
            keys = v.sorted_keys()
            if what == "keys":
                return keys
            if what == "entries":
                return [[key, v.get(key)[1]] for key in keys]
            if what == "values" or what is None:
                return ("values", [v.get(key)[1] for key in keys])
        raise err()

    def ev(self, n, env):
        self.tick()
        t = n[0]
        if t == "lit":
            return n[1]
        if t == "raw":
            # ('raw', source text, reference value): an implementation-side
            # spelling the reference does not model (e.g. an input stream
            # whose lines are the given list)
            return copy.deepcopy(n[2])
        if t in ("evalstr", "evalnode"):
            # eval('<source of n[1]>') / eval(parse('...')): the code runs in
            # the current scope; exits crossing the eval are not pinned
            try:
                return self.ev(n[1], env)
            except (Return, Break, Continue):
                raise Unspec("control statement through eval")
        if t == "sinterp":
            # ('sinterp', call): s('<{call}>') - the placeholder is
            # evaluated in the current scope, errors pass unchanged
            v = self.ev(n[1], env)
            if not isinstance(v, str):
                raise Unspec("interpolation of a non-string")
            return "<" + v + ">"
        if t == "rawerrv":
            # ('rawerrv', source text, value): raises the given user value
            raise LangError(copy.deepcopy(n[2]))
        if t == "rawerr":
            # ('rawerr', source text): an operation that fails inside the
            # host (overflow, ...) and must surface as the runtime 'ERROR'
            raise err()
        if t == "list":
            out = []
            for e in n[1]:
                if e[0] == "spread":
                    v = self.ev(e[1], env)
                    if kind(v) == "list":
                        out += v
                    elif kind(v) == "set":
                        out += v.sorted()
                    elif kind(v) == "map":
                        out += v.sorted_keys()
                    else:
                        raise err()
                else:
                    out.append(self.ev(e, env))
            return out
        if t == "set":
            return RSet([self.ev(e, env) for e in n[1]])
        if t == "map":
            return RMap([(self.ev(k, env), self.ev(v, env))
                         for k, v in n[1]])
        if t == "obj":
            o = RObj()
            for name, e in n[1]:
                o.members[name] = self.ev(e, env)
            return o
        if t == "var":
            e = env.lookup(n[1])
            if e is None:
                raise err()
            return e.vars[n[1]]
        if t == "bin":
            a = self.ev(n[2], env)
            b = self.ev(n[3], env)
            return arith(n[1], a, b)
        if t == "neg":
            v = self.ev(n[1], env)
            return arith("-", 0, v)
        if t == "cmp":
            ops = n[1]
            for i in range(1, len(ops), 2):
                a = self.ev(ops[i - 1], env)
                b = self.ev(ops[i + 1], env)
                op = ops[i]
                if op in ("==", "is"):
                    r = equal(a, b)
                elif op in ("!=", "<>", "is not"):
                    r = not equal(a, b)
                elif op == "<":
                    r = less(a, b)
                elif op == ">":
                    r = less(b, a)
                elif op == "<=":
                    r = less(a, b) or equal(a, b)
                else:
                    r = less(b, a) or equal(a, b)
                if not r:
                    return False
            return True
        if t == "not":
            return not self.truth(self.ev(n[1], env))
        if t == "and":
            for e in n[1]:
                if not self.truth(self.ev(e, env)):
                    return False
            return True
        if t == "or":
            for e in n[1]:
                if self.truth(self.ev(e, env)):
                    return True
            return False
        if t in ("in", "notin"):
            a = self.ev(n[1], env)
            c = self.ev(n[2], env)
            k = kind(c)
            if k == "list":
                r = any(equal(a, x) for x in c)
            elif k == "set":
                r = any(equal(a, x) for x in c.items)
            elif k == "map":
                r = c.get(a)[0]
            elif k == "string":
                if kind(a) != "string":
                    raise Unspec("non-string in string")
                r = a in c
            else:
                raise Unspec("in " + k)
            return r if t == "in" else not r
        if t == "is":
            v = self.ev(n[1], env)
            r = pred(n[2], v)
            return (not r) if n[3] else r
        if t == "def":
            v = self.ev(n[2], env)
            if isinstance(v, Closure) and v.name == "lambda":
                v.name = n[1]
            env.vars[n[1]] = v
            return v
        if t == "assign":
            e = env.lookup(n[1])
            if e is None:
                raise err()
            v = self.ev(n[2], env)
            e2 = env.lookup(n[1])
            e2.vars[n[1]] = v
            return v
        if t in ("dassign", "ddef"):
            # ('dassign'|'ddef', [names], expr): [a, b] = expr updates the
            # nearest enclosing bindings, def [a, b] = expr binds locally
            if t == "dassign" and any(env.lookup(nm) is None for nm in n[1]):
                raise err()
            v = self.ev(n[2], env)
            if kind(v) == "set":
                v = v.sorted()
            elif kind(v) != "list":
                raise Unspec("destructuring a non-collection")
            if len(v) < len(n[1]):
                if t == "dassign":
                    raise Unspec("short destructuring assignment")
                # def [a, b] = [1]: every listed name is bound in the current
                # scope, the ones without a value to NULL; the value of the
                # statement is NULL
                for k, nm in enumerate(n[1]):
                    env.vars[nm] = v[k] if k < len(v) else None
                return None
            for nm, x in zip(n[1], v):
                if t == "ddef":
                    env.vars[nm] = x
                else:
                    env.lookup(nm).vars[nm] = x
            return v
        if t == "opassign":
            e = env.lookup(n[1])
            if e is None:
                raise err()
            cur = e.vars[n[1]]
            v = arith(n[2], cur, self.ev(n[3], env))
            env.lookup(n[1]).vars[n[1]] = v
            return v
        if t == "fn":
            return Closure(n[1], n[2], env)
        if t == "call":
            f = self.ev(n[1], env)
            if not isinstance(f, (Closure, Builtin)):
                raise err()
            return self.call(f, self.eval_args(n[2], env))
        if t == "pipe":
            f = self.ev(n[2], env)
            if not isinstance(f, (Closure, Builtin)):
                raise err()
            args = [(None, self.ev(n[1], env))] + self.eval_args(n[3], env)
            return self.call(f, args)
        if t == "member":
            o = self.ev(n[1], env)
            if kind(o) != "object":
                raise Unspec("member of non-object")
            f, v = self.find_member(o, n[2])
            return v if f else None
        if t == "mcall":
            o = self.ev(n[1], env)
            if kind(o) != "object":
                raise Unspec("method call on non-object")
            f, m = self.find_member(o, n[2])
            if not f:
                raise err()
            if not isinstance(m, Closure):
                raise err()
            args = [(None, o)] + self.eval_args(n[3], env)
            return self.call(m, args)
        if t == "index":
            c = self.ev(n[1], env)
            i = self.ev(n[2], env)
            if kind(c) in ("list", "string") and kind(i) == "int":
                j = i + len(c) if i < 0 else i
                if not 0 <= j < len(c):
                    raise err()
                return c[j]
            if kind(c) == "map":
                f, v = c.get(i)
                if not f:
                    raise err()
                return v
            raise Unspec("index")
        if t == "seq":
            v = True
            for s in n[1]:
                v = self.ev(s, env)
            return v
        if t == "block":
            return self.block(n, env)
        if t == "if":
            for cond, body in n[1]:
                if self.truth(self.ev(cond, env)):
                    return self.ev(body, env)
            if n[2] is None:
                return True
            return self.ev(n[2], env)
        if t == "for":
            return self.loop_for(n, env)
        if t == "while":
            v = True
            while self.truth(self.ev(n[1], env)):
                self.tick()
                try:
                    v = self.ev(n[2], env)
                except Break:
                    v = True
                    break
                except Continue:
                    v = True
            return v
        if t == "break":
            raise Break()
        if t == "continue":
            raise Continue()
        if t == "return":
            raise Return(self.ev(n[1], env) if n[1] is not None else None)
        if t == "error":
            raise LangError(self.ev(n[1], env))
        if t == "log":
            v = self.ev(n[1], env)
            self.log.append(plain(v))
            return v
        if t == "comp":
            return self.comp(n, env)
        raise TypeError(t)

    def find_member(self, o, name):
        seen = 0
        while True:
            if name in o.members:
                return True, o.members[name]
            p = o.members.get("_proto_")
            if not isinstance(p, RObj) or seen > 20:
                return False, None
            o = p
            seen += 1

    def block(self, n, env):
        _, stmts, catches, fin = n
        try:
            try:
                v = True
                for s in stmts:
                    v = self.ev(s, env)
                return v
            except LangError as e:
                for cexpr, body in catches:
                    if cexpr is None or equal(e.value,
                                               self.ev(cexpr, env)):
                        return self.ev(body, env)
                raise
        finally:
            if fin:
                try:
                    for s in fin:
                        self.ev(s, env)
                except (Break, Continue, Return):
                    raise Unspec("control statement inside finally")

    def loop_for(self, n, env):
        _, names, what, itexpr, body = n
        items = self.iterate(self.ev(itexpr, env), what)
        if isinstance(items, tuple):
            items = items[1]
        v = True
        for x in items:
            self.tick()
            if len(names) == 1:
                env.vars[names[0]] = x
            else:
                if kind(x) == "list":
                    vals = x
                elif kind(x) == "set":
                    vals = x.sorted()
                else:
                    raise err()
                if len(vals) < len(names):
                    raise Unspec("short destructuring")
                for nm, val in zip(names, vals):
                    env.vars[nm] = val
            try:
                v = self.ev(body, env)
            except Break:
                v = True
                break
            except Continue:
                v = True
            except Return:
                # leaving the function from inside the loop ends the loop
                # like any other exit: the loop variable goes with it
                for nm in names:
                    env.vars.pop(nm, None)
                raise
        for nm in names:
            env.vars.pop(nm, None)
        return v

    def comp(self, n, env):
        """('comp', kind, valexpr|(k, v), clauses, mode, cond)
        clauses: [(name, what, iterable)], mode: 'single'|'product'|
        'parallel'"""
        _, ckind, val, clauses, mode, cond = n
        local = Env(env)
        seqs = []
        for (name, what, it) in clauses:
            items = self.iterate(self.ev(it, env), what)
            if isinstance(items, tuple):
                if what != "values":
                    # no selector: what a comprehension over a map yields
                    # is not what the loop visits (known finding of C04)
                    raise Unspec("comprehension over a map, no selector")
                items = items[1]      # the values in key order
            seqs.append(items)
        rows = []
        if mode == "single":
            rows = [(x,) for x in seqs[0]]
        elif mode == "product":
            rows = [(x, y) for x in seqs[0] for y in seqs[1]]
        else:
            if len(seqs[0]) != len(seqs[1]):
                raise Unspec("parallel comprehension of unequal lengths")
            rows = list(zip(seqs[0], seqs[1]))
        out_list = []
        out_set = RSet()
        out_map = RMap()
        for row in rows:
            self.tick()
            for (name, _, _), x in zip(clauses, row):
                local.vars[name] = x
            if ckind == "map":
                k = self.ev(val[0], local)
                v = self.ev(val[1], local)
            else:
                v = self.ev(val, local)
            if cond is not None and not self.truth(self.ev(cond, local)):
                continue
            if ckind == "list":
                out_list.append(v)
            elif ckind == "set":
                out_set.add(v)
            else:
                out_map.put(k, v)
        return {"list": out_list, "set": out_set, "map": out_map}[ckind]


# ---- rendering --------------------------------------------------------------
LEVEL = {"or": 1, "and": 2, "not": 3, "cmp": 4, "in": 4, "notin": 4, "is": 4,
         "add": 5, "mul": 6, "neg": 7}


def level(n):
    t = n[0]
    if t in LEVEL:
        return LEVEL[t]
    if t == "bin":
        return 5 if n[1] in "+-" else 6
    if t in ("lit",) and isinstance(n[1], (int, float)) and \
            not isinstance(n[1], bool) and (n[1] < 0 or (
                isinstance(n[1], float) and str(n[1]).startswith("-"))):
        return 7
    if t in ("def", "assign", "opassign", "if", "for", "while", "return",
             "error", "fn", "break", "continue", "dassign", "ddef"):
        return 0
    return 8


def lit(v):
    if v is None:
        return "NULL"
    if v is True:
        return "TRUE"
    if v is False:
        return "FALSE"
    if isinstance(v, int):
        return str(v)
    if isinstance(v, float):
        r = repr(v)
        if "e" in r or "n" in r:
            raise ValueError("unrenderable decimal")
        return r if "." in r else r + ".0"
    s = v.replace("\\", "\\\\").replace("'", "\\'")
    s = s.replace("\n", "\\n").replace("\r", "\\r").replace("\t", "\\t")
    return "'" + s + "'"


def render(n, full=False):
    """source text of node n; full=True parenthesises every operator
    application"""
    return R(n, 0, full)


def P(n, need, full):
    """render n as an operand that must have at least level `need`"""
    s = R(n, need, full)
    if level(n) < need or (full and level(n) < 8 and n[0] not in (
            "lit",) and level(n) > 0):
        return "(" + s + ")"
    return s


def args_text(args, full):
    out = []
    for a in args:
        if a[0] == "pos":
            out.append(P(a[1], 1, full))
        elif a[0] == "named":
            out.append(a[1] + " = " + P(a[2], 1, full))
        else:
            out.append("..." + P(a[1], 8, full))
    return ", ".join(out)


def params_text(params, full):
    out = []
    for (name, default, rest) in params:
        if rest:
            out.append(name)
        elif default is not None:
            out.append(name + " = " + R(default, 0, full))
        else:
            out.append(name)
    return ", ".join(out)


def stmts_text(stmts, full):
    return "; ".join(R(s, 0, full) for s in stmts)


def body_text(b, full):
    """a function body accepts a do-block or a single expression (which
    includes if-expressions, assignments, return/break/error but not
    def/for/while statements)"""
    if b[0] == "block":
        return R(b, 0, full)
    if b[0] == "seq":
        return "do " + stmts_text(b[1], full) + "; end"
    if b[0] in ("def", "for", "while"):
        return "do " + R(b, 0, full) + "; end"
    return R(b, 0, full)


def R(n, need, full):
    t = n[0]
    if t == "lit":
        return lit(n[1])
    if t == "var":
        return n[1]
    if t == "list":
        return "[" + ", ".join(("..." + P(e[1], 8, full)) if e[0] == "spread"
                               else R(e, 0, full) for e in n[1]) + "]"
    if t == "set":
        inner = ", ".join(R(e, 0, full) for e in n[1])
        return "<<" + (" " + inner + " " if inner else "") + ">>"
    if t == "map":
        inner = ", ".join(key_text(k, full) + " => " + R(v, 0, full)
                          for k, v in n[1])
        return "<<<" + (" " + inner + " " if inner else "") + ">>>"
    if t == "obj":
        return "<*" + ", ".join(name + " = " + R(e, 0, full)
                                for name, e in n[1]) + "*>"
    if t == "bin":
        lv = level(n)
        return P(n[2], lv, full) + " " + n[1] + " " + P(n[3], lv + 1, full)
    if t == "neg":
        return "-" + P(n[1], 8, full)
    if t == "cmp":
        ops = n[1]
        parts = [P(ops[0], 5, full)]
        for i in range(1, len(ops), 2):
            parts += [ops[i], P(ops[i + 1], 5, full)]
        return " ".join(parts)
    if t == "not":
        return "not " + P(n[1], 4, full)
    if t == "and":
        return " and ".join(P(e, 3, full) for e in n[1])
    if t == "or":
        return " or ".join(P(e, 2, full) for e in n[1])
    if t == "in":
        return P(n[1], 8, full) + " in " + P(n[2], 8, full)
    if t == "notin":
        return P(n[1], 8, full) + " not in " + P(n[2], 8, full)
    if t == "is":
        return P(n[1], 8, full) + (" is not " if n[3] else " is ") + n[2]
    if t == "def":
        if n[2][0] == "fn" and n[2][1] is not None and len(n) > 3 and n[3]:
            return "def " + n[1] + "(" + params_text(n[2][1], full) + ") " \
                + body_text(n[2][2], full)
        return "def " + n[1] + " = " + R(n[2], 0, full)
    if t == "assign":
        return n[1] + " = " + R(n[2], 0, full)
    if t == "dassign":
        return "[" + ", ".join(n[1]) + "] = " + R(n[2], 0, full)
    if t == "ddef":
        return "def [" + ", ".join(n[1]) + "] = " + R(n[2], 0, full)
    if t == "opassign":
        return n[1] + " " + n[2] + "= " + R(n[3], 0, full)
    if t == "fn":
        return "fn(" + params_text(n[1], full) + ") " + body_text(n[2], full)
    if t == "call":
        return P(n[1], 8, full) + "(" + args_text(n[2], full) + ")"
    if t == "pipe":
        f = n[2]
        # the callee of a pipeline is a name, a member path or `(fn ...)`
        def path(x):
            if x[0] == "var":
                return x[1]
            if x[0] == "member":
                q = path(x[1])
                return None if q is None else q + "->" + x[2]
            return None
        ftxt = path(f) or "(" + R(f, 0, full) + ")"
        return P(n[1], 8, full) + " !> " + ftxt + "(" + \
            args_text(n[3], full) + ")"
    if t == "member":
        return P(n[1], 8, full) + "->" + n[2]
    if t == "mcall":
        return P(n[1], 8, full) + "->" + n[2] + "(" + \
            args_text(n[3], full) + ")"
    if t == "index":
        return P(n[1], 8, full) + "[" + R(n[2], 0, full) + "]"
    if t == "seq":
        return "(" + stmts_text(n[1], full) + ")" if need > 0 \
            else stmts_text(n[1], full)
    if t == "block":
        _, stmts, catches, fin = n
        s = "do " + stmts_text(stmts, full) + ";"
        for cexpr, body in catches:
            s += " catch " + ("all" if cexpr is None
                              else P(cexpr, 8, full)) + " " + \
                loop_body(body, full) + ";"
        if fin:
            s += " finally " + stmts_text(fin, full) + ";"
        return s + " end"
    if t == "if":
        s = ""
        for i, (cond, body) in enumerate(n[1]):
            s += ("if " if i == 0 else " elif ") + P(cond, 1, full) + \
                " then " + if_body(body, full)
        if n[2] is not None:
            s += " else " + if_body(n[2], full)
        return s
    if t in ("raw", "rawerr", "rawerrv"):
        return n[1]
    if t == "sinterp":
        return "s(" + lit("<{" + R(n[1], 0, full) + "}>") + ")"
    if t == "evalstr":
        return "eval(" + lit(R(n[1], 0, full)) + ")"
    if t == "evalnode":
        return "eval(parse(" + lit(R(n[1], 0, full)) + "))"
    if t == "for":
        _, names, what, it, body = n
        nm = names[0] if len(names) == 1 else "[" + ", ".join(names) + "]"
        return "for " + nm + " in " + (what + " " if what else "") + \
            P(it, 8, full) + " " + loop_body(body, full)
    if t == "while":
        return "while " + P(n[1], 1, full) + " " + loop_body(n[2], full)
    if t == "break":
        return "break"
    if t == "continue":
        return "continue"
    if t == "return":
        return "return" if n[1] is None else "return " + R(n[1], 0, full)
    if t == "error":
        return "error " + R(n[1], 0, full)
    if t == "log":
        return "LOG(" + R(n[1], 0, full) + ")"
    if t == "comp":
        _, ckind, val, clauses, mode, cond = n
        op, cl = {"list": ("[", "]"), "set": ("<< ", " >>"),
                  "map": ("<<< ", " >>>")}[ckind]
        if ckind == "map":
            head = P(val[0], 1, full) + " => " + P(val[1], 1, full)
        else:
            head = P(val, 1, full)
        parts = []
        for i, (name, what, it) in enumerate(clauses):
            kw = "for" if i == 0 or mode == "product" else "also for"
            parts.append(kw + " " + name + " in " +
                         (what + " " if what else "") + P(it, 2, full))
        s = op + head + " " + " ".join(parts)
        if cond is not None:
            s += " if " + P(cond, 1, full)
        return s + cl
    raise TypeError(t)


def key_text(k, full):
    # a bare identifier key would be read as a string: parenthesise calls etc
    if k[0] == "var":
        return "identity(" + k[1] + ")"
    return R(k, 0, full)


def if_body(b, full):
    if b[0] in ("block", "seq"):
        return body_text(b, full)
    if level(b) == 0:
        return "do " + R(b, 0, full) + "; end"
    return P(b, 1, full)


def loop_body(b, full):
    if b[0] == "block":
        return R(b, 0, full)
    if b[0] == "seq":
        return "do " + stmts_text(b[1], full) + "; end"
    return "do " + R(b, 0, full) + "; end"


PRELUDE = "def LOGS = []; def LOG(v) do append(LOGS, v); v end; "
