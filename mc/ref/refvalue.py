"""Reference model of data values, written from the statements of C06/C07/C08
(not from values.py).  Values are plain python data:
None | bool | int | float | str | list | ('set', [..]) | ('map', [(k, v)..])
| ('date', 'YYYYmmddHHMMSS') | ('pat', regex-text)
"""
import decimal
import re


def kind(v):
    if v is None:
        return "null"
    if isinstance(v, bool):
        return "boolean"
    if isinstance(v, int):
        return "int"
    if isinstance(v, float):
        return "decimal"
    if isinstance(v, str):
        return "string"
    if isinstance(v, list):
        return "list"
    if isinstance(v, tuple):
        return {"set": "set", "map": "map", "date": "date",
                "pat": "pattern", "obj": "object", "node": "node"}[v[0]]
    raise TypeError(v)


def numeric(v):
    return kind(v) in ("int", "decimal")


def equal(a, b):
    ka, kb = kind(a), kind(b)
    if numeric(a) and numeric(b):
        return a == b        # python compares int/float exactly
    if ka != kb:
        return False
    if ka in ("null",):
        return True
    if ka in ("boolean", "string"):
        return a == b
    if ka in ("date", "pattern", "node"):
        return a[1] == b[1]
    if ka == "object":
        # same member names with equal values, whatever the member order
        da, db = dict(a[1]), dict(b[1])
        return set(da) == set(db) and all(equal(da[n], db[n]) for n in da)
    if ka == "list":
        return len(a) == len(b) and all(equal(x, y) for x, y in zip(a, b))
    if ka == "set":
        ea, eb = dedupe(a[1]), dedupe(b[1])
        return len(ea) == len(eb) and all(
            any(equal(x, y) for y in eb) for x in ea)
    if ka == "map":
        ma, mb = map_entries(a), map_entries(b)
        if len(ma) != len(mb):
            return False
        for k, v in ma:
            hit = [w for (j, w) in mb if equal(k, j)]
            if not hit or not equal(v, hit[0]):
                return False
        return True
    raise TypeError(a)


def dedupe(items):
    out = []
    for x in items:
        if not any(equal(x, y) for y in out):
            out.append(x)
    return out


def map_entries(m):
    """later entries with an equal key replace the value (key stays)"""
    out = []
    for k, v in m[1]:
        for i, (j, _) in enumerate(out):
            if equal(k, j):
                out[i] = (j, v)
                break
        else:
            out.append((k, v))
    return out


def member(x, c):
    k = kind(c)
    if k == "list":
        return any(equal(x, y) for y in c)
    if k == "set":
        return any(equal(x, y) for y in c[1])
    if k == "map":
        return any(equal(x, j) for j, _ in c[1])
    raise TypeError(c)


def less(a, b):
    """strict order on values of one kind (ints and decimals together)"""
    ka, kb = kind(a), kind(b)
    if numeric(a) and numeric(b):
        return a < b
    if ka != kb:
        raise TypeError("cross-kind order is not defined")
    if ka == "string":
        return [ord(c) for c in a] < [ord(c) for c in b]
    if ka == "boolean":
        return (not a) and b
    if ka == "date":
        return a[1] < b[1]
    if ka == "pattern":
        return a[1] < b[1]
    if ka == "list":
        for x, y in zip(a, b):
            if less(x, y):
                return True
            if less(y, x):
                return False
        return len(a) < len(b)
    raise TypeError(ka)


def comparable(a, b):
    try:
        less(a, b)
        return True
    except TypeError:
        return False


DEC_RE = re.compile(r"^-?[0-9]+\.[0-9]+$")
INT_RE = re.compile(r"^-?[0-9]+$")


def render_decimal(x):
    """positional numeral with a fractional part that round-trips"""
    d = decimal.Decimal(repr(x))
    s = format(d, "f")
    if "." not in s:
        s += ".0"
    return s


def render_string(s):
    out = s.replace("\\", "\\\\").replace("'", "\\'")
    out = out.replace("\r", "\\r").replace("\n", "\\n").replace("\t", "\\t")
    return "'" + out + "'"
