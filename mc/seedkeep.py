"""Development tool: confirm a seeded change produced by a sub-agent and keep
it under /verif/seeded/<name>/.

usage: python -m mc.seedkeep <srcdir with patch.diff demo.py notes.md> <name> <PID> "<needs>"

Confirms in a scratch copy of /repo (never in /repo): demo passes on the
unchanged tree, patch applies, the repository's tests still pass, demo fails
with the patch; then runs the property's quick check against the patched copy
and records everything in meta.json.
"""
import json
import os
import shutil
import subprocess
import sys
import tempfile


def run(cmd, **kw):
    return subprocess.run(cmd, capture_output=True, text=True, **kw)


def main():
    src, name, pid, needs = sys.argv[1:5]
    checks = pid.split(",")
    scratch = tempfile.mkdtemp(prefix="ckl-seed-")
    meta = {"property": checks[0], "needs": needs, "ran": []}
    try:
        dst = os.path.join(scratch, "repo")
        shutil.copytree("/repo", dst, ignore=shutil.ignore_patterns(
            ".git", "__pycache__", "*.pyc", ".pytest_cache"))
        env = dict(os.environ, PYTHONPATH=os.path.join(dst, "src"))
        demo = os.path.join(src, "demo.py")
        r0 = run(["/venv/bin/python", demo], env=env, cwd=dst)
        meta["demo_unpatched_exit"] = r0.returncode
        r = run(["git", "apply", "--unsafe-paths", "--directory", dst,
                 os.path.join(src, "patch.diff")], cwd="/")
        if r.returncode != 0:
            r = run(["patch", "-p1", "-d", dst, "-i",
                     os.path.join(src, "patch.diff")])
            if r.returncode != 0:
                print("PATCH-FAILED", r.stderr[-800:], r.stdout[-400:])
                return 3
        rt = run(["/venv/bin/python", "-m", "pytest", "-q", "-p",
                  "no:cacheprovider"], env=env, cwd=dst)
        tail = rt.stdout.strip().splitlines()[-1] if rt.stdout else ""
        meta["tests_with_patch"] = tail
        r1 = run(["/venv/bin/python", demo], env=env, cwd=dst)
        meta["demo_patched_exit"] = r1.returncode
        meta["ran"].append("pytest -q (scratch copy, patched): " + tail)
        meta["ran"].append(f"demo.py unpatched exit {r0.returncode}, "
                           f"patched exit {r1.returncode}")
        det = {}
        for c in checks:
            e2 = dict(os.environ, VERIF_REPO=dst,
                      VERIF_OUT=os.path.join(scratch, "out"))
            rc = run(["/verif/check", c, "--tier", "quick"], env=e2,
                     cwd="/verif")
            sigs = [ln.strip() for ln in rc.stdout.splitlines()
                    if "signature:" in ln][:3]
            det[c] = {"exit": rc.returncode, "signatures": sigs}
            meta["ran"].append(f"./check {c} --tier quick with "
                               f"VERIF_REPO=<patched copy>: exit "
                               f"{rc.returncode}")
        meta["detected_by"] = det
        ok = (r0.returncode == 0 and r1.returncode != 0
              and "854 passed" in tail)
        meta["confirmed"] = ok
        print(json.dumps(meta, indent=1))
        if not ok:
            print("NOT-CONFIRMED")
            return 2
        out = os.path.join("/verif/seeded", name)
        os.makedirs(out, exist_ok=True)
        for f in ("patch.diff", "demo.py", "notes.md"):
            if os.path.exists(os.path.join(src, f)) and \
                    os.path.abspath(src) != os.path.abspath(out):
                shutil.copy(os.path.join(src, f), os.path.join(out, f))
        with open(os.path.join(out, "meta.json"), "w") as f:
            json.dump(meta, f, indent=1)
        return 0
    finally:
        shutil.rmtree(scratch, ignore_errors=True)


if __name__ == "__main__":
    sys.exit(main())
