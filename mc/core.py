"""Common machinery: binding to the code under test, deterministic fuel,
outcome classification, parallel exhaustive enumeration, evidence, replay
files and known-findings handling.

Everything here drives the *real* implementation in $VERIF_REPO/src (default
/repo/src).  Nothing samples: all engines enumerate a finite space completely
and report what they covered.
"""
import collections
import hashlib
import io
import itertools
import json
import os
import signal
import sys
import time
import traceback

VERIF = os.path.dirname(os.path.dirname(os.path.abspath(__file__)))
REPO = os.environ.get("VERIF_REPO", "/repo")
SRC = os.path.realpath(os.path.join(REPO, "src"))

if SRC not in sys.path:
    sys.path.insert(0, SRC)

# A scratch HOME so that ~/.ckl/modules is owned by the harness.
SCRATCH_HOME = os.environ.get("VERIF_HOME")
if not SCRATCH_HOME:
    import tempfile
    SCRATCH_HOME = tempfile.mkdtemp(prefix="ckl-verif-home-")
    os.environ["VERIF_HOME"] = SCRATCH_HOME
    import atexit
    import shutil

    _owner_pid = os.getpid()

    def _cleanup():
        if os.getpid() == _owner_pid:
            shutil.rmtree(SCRATCH_HOME, ignore_errors=True)

    atexit.register(_cleanup)
os.environ["HOME"] = SCRATCH_HOME

import ckl  # noqa: E402

_ckl_file = os.path.realpath(ckl.__file__)
if not _ckl_file.startswith(SRC + os.sep):
    print(f"HARNESS-ERROR: ckl imported from {_ckl_file}, expected {SRC}")
    sys.exit(2)

import ckl.errors  # noqa: E402
import ckl.functions  # noqa: E402
import ckl.interpreter  # noqa: E402
import ckl.lexer  # noqa: E402
import ckl.nodes  # noqa: E402
import ckl.parser  # noqa: E402
import ckl.values  # noqa: E402
from ckl.errors import CklRuntimeError, CklSyntaxError  # noqa: E402

NPROC = int(os.environ.get("VERIF_PROCS", "16"))


# --------------------------------------------------------------------------
# deterministic fuel + wall-clock backstop
# --------------------------------------------------------------------------
class FuelExhausted(BaseException):
    pass


class WallClock(BaseException):
    pass


_fuel = [10 ** 12]
_pfuel = [10 ** 12]
_installed = [False]


def install_fuel():
    """Monkey-patch the evaluator's call/block entry points and the lexer
    cursor so that every execution has a deterministic step budget."""
    if _installed[0]:
        return
    _installed[0] = True
    try:
        _install_fuel()
    except AttributeError as e:
        # an entry point was renamed: fuel is then not enforced there and
        # the wall-clock backstop remains the only hang detector
        print("HARNESS-NOTE: fuel hook not installed:", e)


def _install_fuel():
    N = ckl.nodes
    orig_invoke = N.invoke

    def invoke(fn, names_, args, environment, pos):
        _fuel[0] -= 1
        if _fuel[0] < 0:
            raise FuelExhausted()
        return orig_invoke(fn, names_, args, environment, pos)

    N.invoke = invoke

    orig_block = N.NodeBlock.evaluate

    def block_evaluate(self, environment):
        _fuel[0] -= 1
        if _fuel[0] < 0:
            raise FuelExhausted()
        return orig_block(self, environment)

    N.NodeBlock.evaluate = block_evaluate

    F = ckl.functions
    orig_lambda = F.FuncLambda.execute

    def lambda_execute(self, *a, **kw):
        _fuel[0] -= 1
        if _fuel[0] < 0:
            raise FuelExhausted()
        return orig_lambda(self, *a, **kw)

    F.FuncLambda.execute = lambda_execute

    L = ckl.lexer.Lexer
    orig_peekn = L.peekn

    def peekn(self, n, token, tokentype=None):
        _pfuel[0] -= 1
        if _pfuel[0] < 0:
            raise FuelExhausted()
        return orig_peekn(self, n, token, tokentype)

    L.peekn = peekn
    orig_hasnext = L.hasNext

    def hasNext(self):
        _pfuel[0] -= 1
        if _pfuel[0] < 0:
            raise FuelExhausted()
        return orig_hasnext(self)

    L.hasNext = hasNext


def set_fuel(n=200000, p=200000):
    _fuel[0] = n
    _pfuel[0] = p


def fuel_left():
    return _fuel[0]


def _alarm_handler(signum, frame):
    raise WallClock()


def arm(seconds=10.0):
    signal.signal(signal.SIGALRM, _alarm_handler)
    signal.setitimer(signal.ITIMER_REAL, seconds)


def disarm():
    signal.setitimer(signal.ITIMER_REAL, 0)


# --------------------------------------------------------------------------
# outcomes
# --------------------------------------------------------------------------
def host_site(exc):
    """innermost frame inside src/ckl as file:function"""
    tb = exc.__traceback__
    site = "?"
    while tb is not None:
        fn = tb.tb_frame.f_code.co_filename
        if fn.startswith(SRC):
            site = os.path.basename(fn) + ":" + tb.tb_frame.f_code.co_name
        tb = tb.tb_next
    return site


def render(v):
    """canonical rendering of a result value (type, repr); rendering itself
    may fail (object with broken _str_) which is reported as such"""
    try:
        t = v.type() if hasattr(v, "type") else type(v).__name__
    except Exception as e:  # pragma: no cover
        t = "?" + type(e).__name__
    return (t, repr(v))


def outcome_of(thunk):
    """Run thunk() and classify. Never raises (except harness bugs)."""
    try:
        v = thunk()
        try:
            t, r = render(v)
        except CklRuntimeError as e:
            return ("rt", _errval(e))
        except (FuelExhausted, WallClock):
            raise
        except RecursionError:
            return ("host", "RecursionError", "render")
        except Exception as e:
            return ("host", type(e).__name__, "render:" + host_site(e))
        return ("value", t, r)
    except CklRuntimeError as e:
        return ("rt", _errval(e))
    except CklSyntaxError as e:
        return ("syn", str(e.msg) if isinstance(e.msg, str) else repr(e.msg))
    except FuelExhausted:
        return ("hang", "fuel")
    except WallClock:
        return ("hang", "wall")
    except RecursionError as e:
        return ("host", "RecursionError", host_site(e))
    except Exception as e:
        return ("host", type(e).__name__, host_site(e))


def _errval(e):
    v = e.value
    if isinstance(v, ckl.values.Value):
        try:
            return repr(v)
        except Exception as x:
            return "<unrenderable:" + type(x).__name__ + ">"
    return "<non-value:" + type(v).__name__ + ">"


def is_bad(outcome):
    return outcome[0] in ("host", "hang")


# --------------------------------------------------------------------------
# interpreters
# --------------------------------------------------------------------------
class Session:
    """A real Interpreter with owned streams. reset() gives a fresh session
    scope on the same base environment (cheap); fresh() builds a new one."""

    def __init__(self, secure=True, legacy=False):
        self.secure = secure
        self.legacy = legacy
        self.interp = ckl.interpreter.Interpreter(secure, legacy)
        self.out = io.StringIO()
        self._bind_streams()

    def _bind_streams(self):
        self.out = io.StringIO()
        self.interp.setStandardOutput(self.out)
        self.interp.setStandardInput(io.StringIO(""))
        self.interp.base_environment.put(
            "console", ckl.values.ValueOutput(self.out))

    def reset(self):
        self.interp.environment = self.interp.base_environment.newEnv()
        self._bind_streams()
        ckl.functions.seed = 1
        return self

    def run(self, src, name="test", fuel=200000, wall=10.0):
        set_fuel(fuel, fuel)
        arm(wall)
        try:
            return outcome_of(lambda: self.interp.interpret(src, name))
        finally:
            disarm()
            set_fuel(10 ** 12, 10 ** 12)

    def stdout(self):
        return self.out.getvalue()


def parse_form(src):
    """parse once; evaluate many times with node.evaluate(env)"""
    return ckl.parser.parse_script(src, "form")


def to_value(x):
    """build a real ckl value from plain python data (tagged tuples for
    set/map: ('set', [...]), ('map', [(k, v), ...]), ('obj', [(k,v)...]),
    ('date', 'yyyymmddHHMMSS'), ('pat', 're'))"""
    V = ckl.values
    if x is None:
        return V.NULL
    if x is True:
        return V.TRUE
    if x is False:
        return V.FALSE
    if isinstance(x, int):
        return V.ValueInt(x)
    if isinstance(x, float):
        return V.ValueDecimal(x)
    if isinstance(x, str):
        return V.ValueString(x)
    if isinstance(x, list):
        r = V.ValueList()
        for e in x:
            r.addItem(to_value(e))
        return r
    if isinstance(x, tuple):
        tag = x[0]
        if tag == "set":
            r = V.ValueSet()
            for e in x[1]:
                r.addItem(to_value(e))
            return r
        if tag == "map":
            r = V.ValueMap()
            for k, v in x[1]:
                r.addItem(to_value(k), to_value(v))
            return r
        if tag == "obj":
            r = V.ValueObject()
            for k, v in x[1]:
                r.addItem(k, to_value(v))
            return r
        if tag == "date":
            # 'YYYYmmddHHMMSS' optionally followed by '.ffffff'
            import datetime
            t, _, frac = x[1].partition(".")
            return V.ValueDate(datetime.datetime(
                int(t[0:4]), int(t[4:6]), int(t[6:8]), int(t[8:10]),
                int(t[10:12]), int(t[12:14]), int(frac or 0)))
        if tag == "pat":
            return V.ValuePattern(x[1])
        if tag == "node":
            return V.ValueNode(ckl.parser.parse_script(x[1], "node"))
        if tag == "dec":  # int-backed decimal is not used; plain float
            return V.ValueDecimal(float(x[1]))
    raise TypeError(f"to_value: {x!r}")


# --------------------------------------------------------------------------
# aggregation of results from workers
# --------------------------------------------------------------------------
class Agg:
    """Mergeable result of exploring a chunk of the space."""

    MAX_CLASSES = 5000

    def __init__(self):
        self.n = collections.Counter()
        self.classes = set()
        self.viol = {}      # signature-key -> (size, violation dict)
        self.samples = []

    def count(self, key, k=1):
        self.n[key] += k

    def cls(self, c):
        if len(self.classes) < self.MAX_CLASSES:
            self.classes.add(c)

    def sample(self, s, limit=3):
        if len(self.samples) < limit:
            self.samples.append(s)

    def violation(self, signature, case, expected, observed, size=None):
        """signature: flat dict of strings identifying the *kind* of failure;
        case: json-able description sufficient to replay."""
        key = json.dumps(signature, sort_keys=True)
        if size is None:
            size = len(json.dumps(case, default=str))
        self.n["violations"] += 1
        old = self.viol.get(key)
        if old is None or size < old[0]:
            self.viol[key] = (size, {
                "signature": signature, "case": case,
                "expected": expected, "observed": observed})

    def merge(self, other):
        self.n.update(other.n)
        for c in other.classes:
            self.cls(c)
        for k, (size, v) in other.viol.items():
            old = self.viol.get(k)
            if old is None or size < old[0]:
                self.viol[k] = (size, v)
        for s in other.samples:
            self.sample(s, 6)
        return self


def _run_chunk(job):
    fn, arg = job
    install_fuel()
    try:
        return ("ok", fn(arg))
    except BaseException as e:  # harness bug inside a worker
        return ("err", "".join(traceback.format_exception(e)))


def pmap(fn, chunks, procs=None):
    """Run fn(chunk) -> Agg for every chunk on a fork pool; deterministic
    merge order. fn must be a module-level function."""
    chunks = list(chunks)
    procs = procs or NPROC
    total = Agg()
    if procs <= 1 or len(chunks) <= 1:
        for c in chunks:
            st, r = _run_chunk((fn, c))
            if st != "ok":
                harness_error(r)
            total.merge(r)
        return total
    import multiprocessing
    ctx = multiprocessing.get_context("fork")
    with ctx.Pool(min(procs, len(chunks))) as pool:
        results = pool.map(_run_chunk, [(fn, c) for c in chunks], 1)
    for st, r in results:
        if st != "ok":
            harness_error(r)
        total.merge(r)
    return total


def chunked(seq, nchunks):
    """split a list into at most nchunks interleaved, deterministic chunks"""
    seq = list(seq)
    nchunks = max(1, min(nchunks, len(seq)))
    return [seq[i::nchunks] for i in range(nchunks)]


def harness_error(msg):
    print("HARNESS-ERROR:", msg)
    sys.stdout.flush()
    sys.exit(2)


# --------------------------------------------------------------------------
# known findings, replay files, evidence, exit protocol
# --------------------------------------------------------------------------
def load_known():
    p = os.path.join(VERIF, "known_findings.json")
    if not os.path.exists(p):
        return []
    with open(p) as f:
        return json.load(f).get("findings", [])


def match_known(pid, signature, known):
    for k in known:
        if k.get("property") != pid or k.get("status") != "known":
            continue
        m = k.get("match", {})
        if m and all(str(signature.get(a)) == str(b) for a, b in m.items()):
            return k
    return None


def write_replay(pid, v):
    d = os.path.join(os.environ.get("VERIF_OUT", VERIF), "replays", pid)
    os.makedirs(d, exist_ok=True)
    h = hashlib.sha1(json.dumps(v["signature"], sort_keys=True)
                     .encode()).hexdigest()[:12]
    path = os.path.join(d, h + ".json")
    with open(path, "w") as f:
        json.dump({"property": pid, **v}, f, indent=1, default=str)
    return path


def write_evidence(pid, tier, seed, coverage, wall, violations,
                   assumptions):
    d = os.path.join(os.environ.get("VERIF_OUT", VERIF), "evidence")
    os.makedirs(d, exist_ok=True)
    ev = {
        "property_id": pid,
        "tier": tier,
        "seed": seed,
        "level": "model_checking",
        "coverage": coverage,
        "assumptions": assumptions,
        "wall_s": round(wall, 3),
        "violations": violations,
    }
    tmp = os.path.join(d, pid + ".json.tmp")
    with open(tmp, "w") as f:
        json.dump(ev, f, indent=1, default=str)
    os.replace(tmp, os.path.join(d, pid + ".json"))


def finish(pid, tier, seed, agg, t0, *, rule, exhaustive, assumptions,
           replay_fn=None, extra=None, min_classes=2, states_key="cases",
           transitions_key="steps"):
    """Common tail of every check: confirm violations by replay, filter known
    findings, write evidence, print protocol lines and exit."""
    known = load_known()
    new = []
    knownhits = []
    for key in sorted(agg.viol):
        size, v = agg.viol[key]
        k = match_known(pid, v["signature"], known)
        if k is not None:
            knownhits.append((k, v))
        else:
            new.append(v)
    if os.environ.get("VERIF_DUMP"):
        with open(os.environ["VERIF_DUMP"], "w") as f:
            json.dump(new, f, indent=1, default=str)
    # determinism / reality check: a violation must reproduce when the single
    # case is re-executed without the explorer, twice.
    if replay_fn is not None:
        for v in new[:20]:
            r1 = replay_fn(v["case"])
            r2 = replay_fn(v["case"])
            if not (r1 and r2):
                harness_error(
                    f"violation did not reproduce on replay: "
                    f"{json.dumps(v, default=str)[:800]}")
    states = int(agg.n.get(states_key, 0))
    transitions = int(agg.n.get(transitions_key, 0)) or states
    coverage = {
        "states": states,
        "transitions": transitions,
        "traces_validated_against_impl": transitions,
        "samples": agg.samples[:6] or ["<none>"],
        "evaluations": transitions,
        "distinct_nontrivial": len(agg.classes),
        "rule": rule,
        "exhaustive": bool(exhaustive),
        "counters": {k: int(v) for k, v in sorted(agg.n.items())},
        "distinct_outcome_classes": len(agg.classes),
    }
    if extra:
        coverage.update(extra)
    wall = time.time() - t0
    write_evidence(pid, tier, seed, coverage, wall, len(new), assumptions)
    if states == 0 or len(agg.classes) < min_classes:
        harness_error(
            f"vacuous exploration: states={states} "
            f"classes={len(agg.classes)}")
    seen = set()
    for k, v in knownhits:
        kid = json.dumps(k.get("match"), sort_keys=True)
        if kid in seen:
            continue
        seen.add(kid)
        print(f"KNOWN-FINDING: property={pid} {k.get('what', '')}")
    print(f"{pid} tier={tier} seed={seed} states={states} "
          f"transitions={transitions} classes={len(agg.classes)} "
          f"violations={len(new)} known={len(seen)} wall={wall:.1f}s")
    if new:
        for v in new[:20]:
            path = write_replay(pid, v)
            print(f"VIOLATION property={pid} replay={path}")
            print("   signature:", json.dumps(v["signature"], sort_keys=True))
            print("   case:", json.dumps(v["case"], default=str)[:300])
            print("   expected:", str(v["expected"])[:200])
            print("   observed:", str(v["observed"])[:200])
        sys.stdout.flush()
        sys.exit(1)
    sys.stdout.flush()
    sys.exit(0)


def seed_from_env():
    try:
        return int(os.environ.get("VERIF_SEED", "0"))
    except ValueError:
        return 0


# --------------------------------------------------------------------------
# plain-python views of values (for reference models)
# --------------------------------------------------------------------------
def from_value(v):
    """ckl value -> plain python data using the same tagging as to_value;
    ints and decimals stay distinguishable (int vs float)."""
    V = ckl.values
    if v is V.NULL:
        return None
    if isinstance(v, V.ValueBoolean):
        return bool(v.value)
    if isinstance(v, V.ValueInt):
        # an int value holds an exact integer; anything else is a kind slip
        if type(v.value) is not int:
            return ("int-holding", type(v.value).__name__, repr(v.value))
        return v.value
    if isinstance(v, V.ValueDecimal):
        if type(v.value) not in (float, int):
            return ("decimal-holding", type(v.value).__name__, repr(v.value))
        return float(v.value)
    if isinstance(v, V.ValueString):
        return v.value
    if isinstance(v, V.ValueList):
        return [from_value(e) for e in v.value]
    if isinstance(v, V.ValueSet):
        return ("set", sorted((from_value(e) for e in v.value), key=repr))
    if isinstance(v, V.ValueMap):
        return ("map", sorted(((from_value(k), from_value(x))
                               for k, x in v.value.items()), key=repr))
    if isinstance(v, V.ValueObject):
        return ("obj", [(k, from_value(x)) for k, x in v.value.items()])
    if isinstance(v, V.ValueDate):
        d = v.value
        return ("date", "%04d%02d%02d%02d%02d%02d" % (
            d.year, d.month, d.day, d.hour, d.minute, d.second) +
            (".%06d" % d.microsecond if d.microsecond else ""))
    if isinstance(v, V.ValuePattern):
        return ("pat", v.value)
    return ("other", type(v).__name__)


def strict_eq(a, b):
    """equality of plain python data that distinguishes 1, 1.0 and True"""
    if type(a) is not type(b):
        return False
    if isinstance(a, (list, tuple)):
        return len(a) == len(b) and all(strict_eq(x, y)
                                        for x, y in zip(a, b))
    if isinstance(a, float):
        return a == b or (a != a and b != b)
    return a == b


class Forms:
    """Expression forms parsed once by the real parser, evaluated per case
    with the real evaluator in a fresh child scope with operands bound."""

    def __init__(self, forms, secure=True, legacy=False, prelude=None):
        install_fuel()
        self.session = Session(secure, legacy)
        if prelude:
            self.session.interp.interpret(prelude, "prelude")
        self.base = self.session.interp.environment
        self.nodes = {k: ckl.parser.parse_script(src, "form:" + k)
                      for k, src in forms.items()}
        self.src = dict(forms)

    def ev(self, name, **vars):
        env = self.base.newEnv()
        for k, v in vars.items():
            env.put(k, v)
        node = self.nodes[name]
        return outcome_raw(lambda: node.evaluate(env))


def outcome_raw(thunk):
    """like outcome_of but keeps the real value: ('value', v) | ('rt', errv)
    | ('syn', msg) | ('host', cls, site) | ('hang', why)"""
    try:
        return ("value", thunk())
    except CklRuntimeError as e:
        return ("rt", e.value)
    except CklSyntaxError as e:
        return ("syn", e.msg)
    except FuelExhausted:
        return ("hang", "fuel")
    except WallClock:
        return ("hang", "wall")
    except RecursionError as e:
        return ("host", "RecursionError", host_site(e))
    except Exception as e:
        return ("host", type(e).__name__, host_site(e))


def show_raw(o):
    """json-able rendering of an outcome_raw result"""
    if o[0] == "value":
        try:
            return ["value", o[1].type(), repr(o[1])]
        except BaseException as e:
            return ["value", "?", "<unrenderable " + type(e).__name__ + ">"]
    if o[0] == "rt":
        try:
            return ["rt", repr(o[1])]
        except BaseException as e:
            return ["rt", "<unrenderable " + type(e).__name__ + ">"]
    return list(o)


def is_cyclic(v, _path=None):
    """identity-based detection of a container that (transitively) contains
    itself; such values are infinitely deep and outside the rendering claims"""
    V = ckl.values
    if _path is None:
        _path = set()
    if isinstance(v, V.ValueList):
        kids = v.value
    elif isinstance(v, V.ValueSet):
        kids = list(v.value)
    elif isinstance(v, V.ValueMap):
        kids = list(v.value.keys()) + list(v.value.values())
    elif isinstance(v, V.ValueObject):
        kids = list(v.value.values())
    else:
        return False
    if id(v) in _path:
        return True
    _path.add(id(v))
    try:
        for k in kids:
            if isinstance(k, V.Value) and is_cyclic(k, _path):
                return True
    finally:
        _path.discard(id(v))
    return False
