"""E4: exhaustive exploration of operation histories with fork snapshots.

A trie node is a *live* state (real interpreters inside this process); the
children of a node are produced by os.fork(): the child process executes one
command on its copy-on-write snapshot, checks the observation against the
reference model and recurses.  Violations and counters travel back through
pipes.  `replay_fresh` is the reference implementation (whole history on a
fresh state) used to cross-check the snapshots.
"""
import os
import pickle
import struct

from mc import core


def _send(fd, obj):
    data = pickle.dumps(obj, protocol=4)
    os.write(fd, struct.pack("<Q", len(data)))
    off = 0
    while off < len(data):
        off += os.write(fd, data[off:off + 65536])


def _recv(fd):
    hdr = b""
    while len(hdr) < 8:
        chunk = os.read(fd, 8 - len(hdr))
        if not chunk:
            raise EOFError("child died")
        hdr += chunk
    n = struct.unpack("<Q", hdr)[0]
    buf = bytearray()
    while len(buf) < n:
        chunk = os.read(fd, min(1 << 20, n - len(buf)))
        if not chunk:
            raise EOFError("child died")
        buf += chunk
    return pickle.loads(bytes(buf))


class Explorer:
    """subclass and provide:
       alphabet(state, model, history) -> list of commands enabled here
       execute(state, cmd) -> observation (json-able)
       model_step(model, cmd) -> (model', expected)   (pure)
       judge(agg, history, cmd, expected, observation)
    """

    def alphabet(self, state, model, history):
        raise NotImplementedError

    def execute(self, state, cmd):
        raise NotImplementedError

    def model_step(self, model, cmd):
        raise NotImplementedError

    def judge(self, agg, history, cmd, expected, observation):
        raise NotImplementedError

    def explore(self, state, model, history, depth, agg):
        """DFS below (state, model); every child step runs in a forked
        snapshot"""
        if depth <= 0:
            return
        import gc
        gc.disable()
        gc.freeze()
        for cmd in self.alphabet(state, model, history):
            r, w = os.pipe()
            pid = os.fork()
            if pid == 0:
                os.close(r)
                code = 0
                try:
                    sub = core.Agg()
                    core.arm(120)
                    obs = self.execute(state, cmd)
                    core.disarm()
                    model2, expected = self.model_step(model, cmd)
                    sub.count("steps")
                    self.judge(sub, history, cmd, expected, obs)
                    self.explore(state, model2, history + [cmd], depth - 1,
                                 sub)
                    _send(w, ("ok", sub))
                except BaseException as e:
                    import traceback
                    try:
                        _send(w, ("err", "".join(
                            traceback.format_exception(e))))
                    except BaseException:
                        code = 3
                finally:
                    os._exit(code)
            os.close(w)
            try:
                st, payload = _recv(r)
            finally:
                os.close(r)
                os.waitpid(pid, 0)
            if st != "ok":
                raise RuntimeError("E4 child failed: " + payload)
            agg.merge(payload)
            agg.count("cases")

    def replay_fresh(self, make_state, make_model, history, agg=None):
        """whole history on a fresh state; returns the list of
        (cmd, expected, observation)"""
        state = make_state()
        model = make_model()
        out = []
        for i, cmd in enumerate(history):
            obs = self.execute(state, cmd)
            model, expected = self.model_step(model, cmd)
            out.append((cmd, expected, obs))
            if agg is not None:
                agg.count("fresh_steps")
                self.judge(agg, history[:i], cmd, expected, obs)
        return out
