"""Generates the markdown tables of DESIGN.md appendices from
known_findings.json and seeded/*/meta.json (development tool)."""
import glob
import json
import os


def main():
    kf = json.load(open("/verif/known_findings.json"))["findings"]
    print("### Fixed defects (one `fix:` commit each)\n")
    print("| property | commit | what failed before the fix |")
    print("|---|---|---|")
    for f in kf:
        if f["status"] == "fixed":
            print(f"| {f['property']} | `{f['commit']}` | "
                  f"{f['what'].replace('|', '\\|')} |")
    print("\n### Known findings (recorded, not repaired)\n")
    print("| property | signature | what fails |")
    print("|---|---|---|")
    for f in kf:
        if f["status"] == "known":
            print(f"| {f['property']} | `{json.dumps(f['match'])}` | "
                  f"{f['what'].replace('|', '\\|')} |")
    print("\n### Seeded changes and the checks that catch them\n")
    print("| seeded change | breaks | needs | caught by (quick tier) |")
    print("|---|---|---|---|")
    for d in sorted(glob.glob("/verif/seeded/*")):
        m = json.load(open(os.path.join(d, "meta.json")))
        det = ", ".join(
            f"{c} ({(v['signatures'] or ['?'])[0].replace('signature: ', '')[:70]})"
            for c, v in m.get("detected_by", {}).items() if v["exit"] == 1)
        miss = ", ".join(c for c, v in m.get("detected_by", {}).items()
                         if v["exit"] != 1)
        needs = m.get("needs", "")
        if needs == "see notes.md":
            notes = os.path.join(d, "notes.md")
            needs = ""
            if os.path.exists(notes):
                for ln in open(notes):
                    if "trigger" in ln.lower() or "fail" in ln.lower():
                        needs = ln.strip("-* \n")[:160]
                        break
        print(f"| {os.path.basename(d)} | {m['property']} | "
              f"{needs.replace('|', '/')} | {det.replace('|', '/')}"
              + (f"; not caught by {miss}" if miss else "") + " |")


main()
